#!/bin/bash
# build.sh <flavour> <scratchdir> [race]  — rewrite /repo's working tree into <scratchdir>/fsnotify and build
# the harness against it as <scratchdir>/harness(.race). Exit 2 on any failure (could not check).
set -u
FLAV=$1; SCR=$2; RACE=${3:-}
export GOFLAGS=-mod=mod GOPROXY=off GOSUMDB=off GOTOOLCHAIN=local CGO_ENABLED=1
V=$(cd "$(dirname "$0")/.." && pwd)
REPO=${VERIF_REPO:-/repo}
mkdir -p "$SCR/bin" || exit 2
if [ ! -x "$SCR/bin/instr" ]; then
  (cd $V/instr && go build -o "$SCR/bin/instr" .) || { echo "BUILD-FAILURE: instr"; exit 2; }
fi
rm -rf "$SCR/fsnotify-$FLAV"
"$SCR/bin/instr" -src "$REPO" -dst "$SCR/fsnotify-$FLAV" -flavour "$FLAV" -sim $V/sim > "$SCR/instr-$FLAV.log" 2>&1 || { cat "$SCR/instr-$FLAV.log"; echo "BUILD-FAILURE: rewrite"; exit 2; }
if [ "$FLAV" = linux ]; then
  mkdir -p "$SCR/fsnotify-$FLAV/internal" && cp "$REPO"/internal/*.go "$SCR/fsnotify-$FLAV/internal/"
  cp $V/templates/zz_verif_export_linux.go "$SCR/fsnotify-$FLAV/"
  HDIR=$V/harness; TAGS=""
else
  cp $V/templates/zz_verif_export_kqueue.go "$SCR/fsnotify-$FLAV/"
  HDIR=$V/harness; TAGS="-tags kq"
fi
# residual nondeterminism scan on the rewritten copy
if grep -nE '^\s*go |\bselect \{|<-|\.Range\(' "$SCR/fsnotify-$FLAV"/*.go | grep -v 'verif_' | grep -vE '(chan<-|<-chan)' ; then
  echo "BUILD-FAILURE: un-rewritten concurrency construct left in the copy"; exit 2
fi
MODF="$SCR/harness-$FLAV.mod"
cat > "$MODF" <<EOM
module verifharness

go 1.21

require github.com/fsnotify/fsnotify v0.0.0
require verifsim v0.0.0
require golang.org/x/sys v0.13.0
require github.com/anishathalye/porcupine v1.3.0

replace github.com/fsnotify/fsnotify => $SCR/fsnotify-$FLAV
replace verifsim => $V/sim
EOM
cp $V/sim/go.sum "$SCR/harness-$FLAV.sum" 2>/dev/null
OUT="$SCR/harness-$FLAV"
RF=""
if [ -n "$RACE" ]; then RF="-race"; OUT="$OUT.race"; fi
(cd $HDIR && go build $RF $TAGS -modfile="$MODF" -o "$OUT" . ) || { echo "BUILD-FAILURE: harness"; exit 2; }
echo "built $OUT"
