#!/usr/bin/env python3
"""Add //go:norace to every top-level func declaration of the given Go files that lacks it."""
import sys,re
for p in sys.argv[1:]:
    lines=open(p).read().split('\n')
    out=[]
    for i,l in enumerate(lines):
        if l.startswith('func '):
            # look back over the doc comment block for an existing pragma
            j=len(out)-1; has=False
            while j>=0 and out[j].startswith('//'):
                if out[j].strip()=='//go:norace': has=True
                j-=1
            if not has:
                if out and out[-1].startswith('//') and not out[-1].startswith('//go:'):
                    out.append('//')
                out.append('//go:norace')
        out.append(l)
    open(p,'w').write('\n'.join(out))
