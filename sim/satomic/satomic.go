// Package satomic holds drop-ins for sync/atomic: every operation is a
// scheduling point followed by the real atomic operation (which the race
// detector sees as the synchronisation it is). fsnotify uses no atomics today;
// the drop-ins exist so that a change which introduces them is still simulated
// deterministically instead of being refused by the rewriter.
package satomic

import (
	"sync/atomic"
	"unsafe"

	"verifsim/ssim"
)

//go:norace
func y() { ssim.Yield("atomic") }

//go:norace
func AddInt32(p *int32, d int32) int32 { y(); return atomic.AddInt32(p, d) }

//go:norace
func AddInt64(p *int64, d int64) int64 { y(); return atomic.AddInt64(p, d) }

//go:norace
func AddUint32(p *uint32, d uint32) uint32 { y(); return atomic.AddUint32(p, d) }

//go:norace
func AddUint64(p *uint64, d uint64) uint64 { y(); return atomic.AddUint64(p, d) }

//go:norace
func LoadInt32(p *int32) int32 { y(); return atomic.LoadInt32(p) }

//go:norace
func LoadInt64(p *int64) int64 { y(); return atomic.LoadInt64(p) }

//go:norace
func LoadUint32(p *uint32) uint32 { y(); return atomic.LoadUint32(p) }

//go:norace
func LoadUint64(p *uint64) uint64 { y(); return atomic.LoadUint64(p) }

//go:norace
func LoadPointer(p *unsafe.Pointer) unsafe.Pointer { y(); return atomic.LoadPointer(p) }

//go:norace
func StoreInt32(p *int32, v int32) { y(); atomic.StoreInt32(p, v) }

//go:norace
func StoreInt64(p *int64, v int64) { y(); atomic.StoreInt64(p, v) }

//go:norace
func StoreUint32(p *uint32, v uint32) { y(); atomic.StoreUint32(p, v) }

//go:norace
func StoreUint64(p *uint64, v uint64) { y(); atomic.StoreUint64(p, v) }

//go:norace
func StorePointer(p *unsafe.Pointer, v unsafe.Pointer) { y(); atomic.StorePointer(p, v) }

//go:norace
func SwapInt32(p *int32, v int32) int32 { y(); return atomic.SwapInt32(p, v) }

//go:norace
func SwapInt64(p *int64, v int64) int64 { y(); return atomic.SwapInt64(p, v) }

//go:norace
func SwapUint32(p *uint32, v uint32) uint32 { y(); return atomic.SwapUint32(p, v) }

//go:norace
func SwapUint64(p *uint64, v uint64) uint64 { y(); return atomic.SwapUint64(p, v) }

//go:norace
func CompareAndSwapInt32(p *int32, o, n int32) bool { y(); return atomic.CompareAndSwapInt32(p, o, n) }

//go:norace
func CompareAndSwapInt64(p *int64, o, n int64) bool { y(); return atomic.CompareAndSwapInt64(p, o, n) }

//go:norace
func CompareAndSwapUint32(p *uint32, o, n uint32) bool {
	y()
	return atomic.CompareAndSwapUint32(p, o, n)
}

//go:norace
func CompareAndSwapUint64(p *uint64, o, n uint64) bool {
	y()
	return atomic.CompareAndSwapUint64(p, o, n)
}

type Bool struct{ v atomic.Bool }

//go:norace
func (b *Bool) Load() bool { y(); return b.v.Load() }

//go:norace
func (b *Bool) Store(x bool) { y(); b.v.Store(x) }

//go:norace
func (b *Bool) Swap(x bool) bool { y(); return b.v.Swap(x) }

//go:norace
func (b *Bool) CompareAndSwap(o, n bool) bool { y(); return b.v.CompareAndSwap(o, n) }

type Int32 struct{ v atomic.Int32 }

//go:norace
func (b *Int32) Load() int32 { y(); return b.v.Load() }

//go:norace
func (b *Int32) Store(x int32) { y(); b.v.Store(x) }

//go:norace
func (b *Int32) Add(d int32) int32 { y(); return b.v.Add(d) }

//go:norace
func (b *Int32) Swap(x int32) int32 { y(); return b.v.Swap(x) }

//go:norace
func (b *Int32) CompareAndSwap(o, n int32) bool { y(); return b.v.CompareAndSwap(o, n) }

type Int64 struct{ v atomic.Int64 }

//go:norace
func (b *Int64) Load() int64 { y(); return b.v.Load() }

//go:norace
func (b *Int64) Store(x int64) { y(); b.v.Store(x) }

//go:norace
func (b *Int64) Add(d int64) int64 { y(); return b.v.Add(d) }

//go:norace
func (b *Int64) Swap(x int64) int64 { y(); return b.v.Swap(x) }

//go:norace
func (b *Int64) CompareAndSwap(o, n int64) bool { y(); return b.v.CompareAndSwap(o, n) }

type Uint32 struct{ v atomic.Uint32 }

//go:norace
func (b *Uint32) Load() uint32 { y(); return b.v.Load() }

//go:norace
func (b *Uint32) Store(x uint32) { y(); b.v.Store(x) }

//go:norace
func (b *Uint32) Add(d uint32) uint32 { y(); return b.v.Add(d) }

//go:norace
func (b *Uint32) Swap(x uint32) uint32 { y(); return b.v.Swap(x) }

//go:norace
func (b *Uint32) CompareAndSwap(o, n uint32) bool { y(); return b.v.CompareAndSwap(o, n) }

type Uint64 struct{ v atomic.Uint64 }

//go:norace
func (b *Uint64) Load() uint64 { y(); return b.v.Load() }

//go:norace
func (b *Uint64) Store(x uint64) { y(); b.v.Store(x) }

//go:norace
func (b *Uint64) Add(d uint64) uint64 { y(); return b.v.Add(d) }

//go:norace
func (b *Uint64) Swap(x uint64) uint64 { y(); return b.v.Swap(x) }

//go:norace
func (b *Uint64) CompareAndSwap(o, n uint64) bool { y(); return b.v.CompareAndSwap(o, n) }

type Value struct{ v atomic.Value }

//go:norace
func (b *Value) Load() interface{} { y(); return b.v.Load() }

//go:norace
func (b *Value) Store(x interface{}) { y(); b.v.Store(x) }

//go:norace
func (b *Value) Swap(x interface{}) interface{} { y(); return b.v.Swap(x) }

//go:norace
func (b *Value) CompareAndSwap(o, n interface{}) bool { y(); return b.v.CompareAndSwap(o, n) }
