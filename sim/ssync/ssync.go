// Package ssync holds the drop-in replacements for the sync primitives used by
// (or likely to be added to) fsnotify. Each wraps the real primitive – so the
// race detector sees the program's own synchronisation – behind a logical state
// owned by the simulator, which decides when an operation may proceed.
package ssync

import (
	"sync"
	"unsafe"

	"verifsim/ssim"
)

// Locker is sync.Locker.
type Locker = sync.Locker

// Mutex is the drop-in for sync.Mutex.
type Mutex struct {
	real  sync.Mutex
	held  bool
	Owner *ssim.Task
}

type mutexFree struct{ m *Mutex }

//go:norace
func (w mutexFree) Ready() bool { return !w.m.held }

//go:norace
func (m *Mutex) Lock() {
	ssim.WaitFor("Mutex.Lock", uintptr(unsafe.Pointer(m)), mutexFree{m})
	m.held = true
	m.Owner = ssim.Cur()
	m.real.Lock()
}

//go:norace
func (m *Mutex) TryLock() bool {
	ssim.Yield("Mutex.TryLock")
	if m.held {
		return false
	}
	m.held = true
	m.Owner = ssim.Cur()
	m.real.Lock()
	return true
}

//go:norace
func (m *Mutex) Unlock() {
	if !m.held {
		m.real.Unlock() // fatal error: unlock of unlocked mutex, as the real one
	}
	m.real.Unlock()
	m.held = false
	m.Owner = nil
}

// RWMutex is the drop-in for sync.RWMutex.
type RWMutex struct {
	real    sync.RWMutex
	writer  bool
	readers int
}

type rwWFree struct{ m *RWMutex }

//go:norace
func (w rwWFree) Ready() bool { return !w.m.writer && w.m.readers == 0 }

type rwRFree struct{ m *RWMutex }

//go:norace
func (w rwRFree) Ready() bool { return !w.m.writer }

//go:norace
func (m *RWMutex) Lock() {
	ssim.WaitFor("RWMutex.Lock", uintptr(unsafe.Pointer(m)), rwWFree{m})
	m.writer = true
	m.real.Lock()
}

//go:norace
func (m *RWMutex) Unlock() {
	m.real.Unlock()
	m.writer = false
}

//go:norace
func (m *RWMutex) RLock() {
	ssim.WaitFor("RWMutex.RLock", uintptr(unsafe.Pointer(m)), rwRFree{m})
	m.readers++
	m.real.RLock()
}

//go:norace
func (m *RWMutex) RUnlock() {
	m.real.RUnlock()
	m.readers--
}

//go:norace
func (m *RWMutex) RLocker() Locker { return (*rlocker)(m) }

type rlocker RWMutex

//go:norace
func (r *rlocker) Lock() { (*RWMutex)(r).RLock() }

//go:norace
func (r *rlocker) Unlock() { (*RWMutex)(r).RUnlock() }

// Once is the drop-in for sync.Once.
type Once struct {
	m    Mutex
	done bool
}

//go:norace
func (o *Once) Do(f func()) {
	o.m.Lock()
	defer o.m.Unlock()
	if !o.done {
		defer func() { o.done = true }()
		f()
	}
}

// WaitGroup is the drop-in for sync.WaitGroup.
type WaitGroup struct {
	real sync.WaitGroup
	n    int
}

type wgZero struct{ w *WaitGroup }

//go:norace
func (w wgZero) Ready() bool { return w.w.n <= 0 }

//go:norace
func (w *WaitGroup) Add(d int) {
	ssim.Yield("WaitGroup.Add")
	w.n += d
	w.real.Add(d)
}

//go:norace
func (w *WaitGroup) Done() { w.Add(-1) }

//go:norace
func (w *WaitGroup) Wait() {
	ssim.WaitFor("WaitGroup.Wait", uintptr(unsafe.Pointer(w)), wgZero{w})
	w.real.Wait()
}
