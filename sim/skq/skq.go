// Package skq is the kqueue flavour of the simulator's syscall layer: a
// simulated kqueue kernel (descriptor table with lowest-free allocation, knotes,
// activation list, EVFILT_VNODE / EVFILT_READ) under which the real
// backend_kqueue.go – compiled on Linux after mechanical rewriting – runs. The
// filesystem is the real scratch directory; the harness's world operations post
// the NOTE_* flags that FreeBSD's vop_*_post hooks raise on the affected vnodes.
// It stands in for golang.org/x/sys/unix, for the os functions that are yield
// points, for internal.Debug and for runtime.GOOS in the rewritten copy.
package skq

import (
	"os"
	"strconv"
	"syscall"
	"unsafe"

	"golang.org/x/sys/unix"
	"verifsim/ssim"
)

// FreeBSD/amd64 values.
const (
	EVFILT_READ  = -0x1
	EVFILT_VNODE = -0x4
	EV_ADD       = 0x1
	EV_DELETE    = 0x2
	EV_ENABLE    = 0x4
	EV_ONESHOT   = 0x10
	EV_CLEAR     = 0x20
	EV_ERROR     = 0x4000
	EV_EOF       = 0x8000
	NOTE_DELETE  = 0x1
	NOTE_WRITE   = 0x2
	NOTE_EXTEND  = 0x4
	NOTE_ATTRIB  = 0x8
	NOTE_LINK    = 0x10
	NOTE_RENAME  = 0x20
	NOTE_REVOKE  = 0x40
	O_RDONLY     = 0x0
	O_NONBLOCK   = 0x4
	O_CLOEXEC    = 0x100000
	O_EVTONLY    = 0x8000 // darwin only; defined so that system_darwin.go would compile too
)

// GOOS is what the rewritten runtime.GOOS reads: the BSD (non-darwin) branches.
const GOOS = "freebsd"

type Errno = syscall.Errno

const (
	EINTR  = syscall.EINTR
	EACCES = syscall.EACCES
	EPERM  = syscall.EPERM
	ENOENT = syscall.ENOENT
	EBADF  = syscall.EBADF
	EMFILE = syscall.EMFILE
	EINVAL = syscall.EINVAL
)

type Timespec = syscall.Timespec

type Kevent_t struct {
	Ident  uint64
	Filter int16
	Flags  uint16
	Fflags uint32
	Data   int64
	Udata  *byte
	Ext    [4]uint64
}

//go:norace
func SetKevent(k *Kevent_t, fd, mode, flags int) {
	k.Ident = uint64(fd)
	k.Filter = int16(mode)
	k.Flags = uint16(flags)
}

// Debug is internal.Debug (debug output is off).
//
//go:norace
func Debug(name string, kevent *Kevent_t) {}

const (
	kindKq = iota + 1
	kindPipeR
	kindPipeW
	kindVnode
)

type fdObj struct {
	kind   int
	ino    uint64
	real   int
	peer   int
	path   string
	eof    bool
	opened int // step
}

type knote struct {
	ident   int
	filter  int16
	fflags  uint32
	flags   uint16
	pending uint32
	active  bool
	seq     int
}

type kqObj struct {
	fd    int
	notes []*knote
}

// Call is one simulated syscall made by library code.
type Call struct {
	Step  int
	Task  int
	Kind  string
	FD    int
	Path  string
	Errno syscall.Errno
}

// Kern is the per-run simulated kernel.
type Kern struct {
	fds   []*fdObj // index = descriptor number; nil = free
	kqs   []*kqObj
	seq   int
	Calls []Call
	Cfg   Config
	// statistics / oracles
	Opened, Closed int
	DoubleClose    int
	KeventOnClosed int
	Faults         Counter
	MaxBatch       int
	Retrievals     int
	Permuted       int
	OpenByPath     []string
	EINTRPending   int
}

// Config are the per-run knobs.
type Config struct {
	BatchMode   int // 0: any k in 1..n (decision 0 = all that fit); 1: one per retrieval
	Permute     bool
	FaultOpen   int  // 0 off; else 1-in-N opens fail (EINTR is retried by the code; EACCES / EMFILE are not)
	EmulatePerm bool // emulate non-root permission checks from the mode bits
}

// Counter is a tiny name → count table.
type Counter struct {
	Names  []string
	Counts []int
}

//go:norace
func (c *Counter) Inc(name string) {
	for i, n := range c.Names {
		if n == name {
			c.Counts[i]++
			return
		}
	}
	c.Names = append(c.Names, name)
	c.Counts = append(c.Counts, 1)
}

var kern *Kern

const fdBase = 3

// New resets the simulated kernel for a run.
//
//go:norace
func New(cfg Config) *Kern {
	kern = &Kern{Cfg: cfg, fds: make([]*fdObj, fdBase)}
	return kern
}

//go:norace
func Get() *Kern { return kern }

//go:norace
func (k *Kern) alloc(o *fdObj) int {
	o.opened = ssim.S().Steps
	for i := fdBase; i < len(k.fds); i++ {
		if k.fds[i] == nil {
			k.fds[i] = o
			return i
		}
	}
	k.fds = append(k.fds, o)
	return len(k.fds) - 1
}

//go:norace
func (k *Kern) get(fd int) *fdObj {
	if fd < fdBase || fd >= len(k.fds) {
		return nil
	}
	return k.fds[fd]
}

//go:norace
func (k *Kern) log(kind string, fd int, path string, err error) {
	c := Call{Step: ssim.S().Steps, Task: ssim.Cur().ID, Kind: kind, FD: fd, Path: path}
	if err != nil {
		c.Errno, _ = err.(syscall.Errno)
	}
	k.Calls = append(k.Calls, c)
}

// OpenFDs returns the open descriptors by kind: kqueues, pipe ends, vnodes.
//
//go:norace
func (k *Kern) OpenFDs() (kq, pipe, vnode int) {
	for _, o := range k.fds {
		if o == nil {
			continue
		}
		switch o.kind {
		case kindKq:
			kq++
		case kindPipeR, kindPipeW:
			pipe++
		case kindVnode:
			vnode++
		}
	}
	return
}

// VnodePaths lists the paths the open vnode descriptors were opened as.
//
//go:norace
func (k *Kern) VnodePaths() []string {
	var out []string
	for _, o := range k.fds {
		if o != nil && o.kind == kindVnode {
			out = append(out, o.path)
		}
	}
	return out
}

// ReleaseAll closes whatever real descriptors are still pinned (end of run).
//
//go:norace
func (k *Kern) ReleaseAll() {
	for _, o := range k.fds {
		if o != nil && o.kind == kindVnode && o.real >= 0 {
			unix.Close(o.real)
			o.real = -1
		}
	}
}

// Post raises fflags on every knote attached to a descriptor of the vnode ino.
// Called by the harness's world layer in the step of the filesystem operation.
//
//go:norace
func (k *Kern) Post(ino uint64, fflags uint32) {
	if ino == 0 {
		return
	}
	for fd, o := range k.fds {
		if o == nil || o.kind != kindVnode || o.ino != ino {
			continue
		}
		for _, q := range k.kqs {
			for _, n := range q.notes {
				if n.ident == fd && n.filter == EVFILT_VNODE && n.fflags&fflags != 0 {
					n.pending |= n.fflags & fflags
					if !n.active {
						n.active = true
						k.seq++
						n.seq = k.seq
					}
				}
			}
		}
	}
}

//go:norace
func (k *Kern) kq(fd int) *kqObj {
	o := k.get(fd)
	if o == nil || o.kind != kindKq {
		return nil
	}
	for _, q := range k.kqs {
		if q.fd == fd {
			return q
		}
	}
	return nil
}

// Kqueue is kqueue(2).
//
//go:norace
func Kqueue() (int, error) {
	ssim.Yield("kqueue")
	k := kern
	fd := k.alloc(&fdObj{kind: kindKq, real: -1})
	k.kqs = append(k.kqs, &kqObj{fd: fd})
	k.Opened++
	k.log("kqueue", fd, "", nil)
	return fd, nil
}

// Pipe is pipe(2).
//
//go:norace
func Pipe(p []int) error {
	ssim.Yield("pipe")
	k := kern
	r := k.alloc(&fdObj{kind: kindPipeR, real: -1})
	w := k.alloc(&fdObj{kind: kindPipeW, real: -1})
	k.fds[r].peer, k.fds[w].peer = w, r
	p[0], p[1] = r, w
	k.Opened += 2
	k.log("pipe", r, "", nil)
	return nil
}

//go:norace
func CloseOnExec(fd int) {}

// Open is open(2) on the real scratch filesystem; the returned number comes
// from the simulated descriptor table.
//
//go:norace
func Open(path string, mode int, perm uint32) (int, error) {
	k := kern
	n := 0
	if k.Cfg.FaultOpen > 0 {
		n = k.Cfg.FaultOpen
	}
	aux := ssim.WaitForHook("open", 0, nil, func(r *ssim.Req) {
		r.Aux = 0
		if n > 0 {
			r.Aux = ssim.S().Ch.Choose(n, "fault-open")
		}
	})
	switch aux {
	case 1:
		k.Faults.Inc("K3-open-EINTR")
		k.log("open", -1, path, EINTR)
		return -1, EINTR
	case 2:
		k.Faults.Inc("K3-open-EACCES")
		k.log("open", -1, path, EACCES)
		return -1, EACCES
	case 3:
		k.Faults.Inc("K3-open-EMFILE")
		k.log("open", -1, path, EMFILE)
		return -1, EMFILE
	}
	var st unix.Stat_t
	if err := unix.Stat(path, &st); err != nil {
		k.log("open", -1, path, err)
		return -1, err
	}
	if k.Cfg.EmulatePerm && st.Mode&0o400 == 0 {
		k.log("open", -1, path, EACCES)
		return -1, EACCES
	}
	real, err := unix.Open(path, unix.O_PATH|unix.O_CLOEXEC, 0)
	if err != nil {
		k.log("open", -1, path, err)
		return -1, err
	}
	// pin above the range the simulated numbers live in
	if hi, err := unix.FcntlInt(uintptr(real), unix.F_DUPFD_CLOEXEC, 2000); err == nil {
		unix.Close(real)
		real = hi
	}
	var fst unix.Stat_t
	unix.Fstat(real, &fst)
	fd := k.alloc(&fdObj{kind: kindVnode, ino: fst.Ino, real: real, path: path})
	k.Opened++
	k.log("open", fd, path, nil)
	return fd, nil
}

// Close is close(2).
//
//go:norace
func Close(fd int) error {
	ssim.Yield("close")
	k := kern
	o := k.get(fd)
	if o == nil {
		k.DoubleClose++
		k.log("close", fd, "", EBADF)
		return EBADF
	}
	k.fds[fd] = nil
	k.Closed++
	// knotes attached to this descriptor go away with it
	for _, q := range k.kqs {
		var keep []*knote
		for _, n := range q.notes {
			if n.ident != fd {
				keep = append(keep, n)
			}
		}
		q.notes = keep
	}
	switch o.kind {
	case kindVnode:
		if o.real >= 0 {
			unix.Close(o.real)
		}
	case kindPipeW:
		if p := k.get(o.peer); p != nil && p.kind == kindPipeR {
			p.eof = true
			for _, q := range k.kqs {
				for _, n := range q.notes {
					if n.ident == o.peer && n.filter == EVFILT_READ && !n.active {
						n.active = true
						k.seq++
						n.seq = k.seq
					}
				}
			}
		}
	case kindKq:
		for i, q := range k.kqs {
			if q.fd == fd {
				k.kqs = append(k.kqs[:i:i], k.kqs[i+1:]...)
				break
			}
		}
	}
	k.log("close", fd, o.path, nil)
	return nil
}

type kqReady struct {
	k  *Kern
	fd int
}

//go:norace
func (w kqReady) Ready() bool {
	q := w.k.kq(w.fd)
	if q == nil {
		return true // closed under us: EBADF
	}
	for _, n := range q.notes {
		if n.active {
			return true
		}
	}
	return false
}

// Kevent is kevent(2): registration when changes is non-empty, retrieval when
// events is non-empty.
//
//go:norace
func Kevent(kqfd int, changes, events []Kevent_t, timeout *Timespec) (int, error) {
	k := kern
	if len(changes) > 0 {
		ssim.Yield("kevent.register")
		q := k.kq(kqfd)
		if q == nil {
			k.KeventOnClosed++
			k.log("kevent", kqfd, "", EBADF)
			return -1, EBADF
		}
		for _, c := range changes {
			id := int(c.Ident)
			o := k.get(id)
			var found *knote
			fi := -1
			for i, n := range q.notes {
				if n.ident == id && n.filter == c.Filter {
					found, fi = n, i
				}
			}
			if c.Flags&EV_DELETE != 0 {
				if o == nil {
					k.KeventOnClosed++
					k.log("kevent.delete", id, "", EBADF)
					return -1, EBADF
				}
				if found == nil {
					k.log("kevent.delete", id, "", ENOENT)
					return -1, ENOENT
				}
				q.notes = append(q.notes[:fi:fi], q.notes[fi+1:]...)
				k.log("kevent.delete", id, "", nil)
				continue
			}
			if c.Flags&EV_ADD != 0 {
				if o == nil {
					k.KeventOnClosed++
					k.log("kevent.add", id, "", EBADF)
					return -1, EBADF
				}
				if c.Filter == EVFILT_VNODE && o.kind != kindVnode {
					k.log("kevent.add", id, "", EINVAL)
					return -1, EINVAL
				}
				if found == nil {
					found = &knote{ident: id, filter: c.Filter}
					q.notes = append(q.notes, found)
				}
				found.fflags = c.Fflags
				found.flags = c.Flags
				if c.Filter == EVFILT_READ && o.eof && !found.active {
					found.active = true
					k.seq++
					found.seq = k.seq
				}
				k.log("kevent.add", id, o.path, nil)
			}
		}
		if len(events) == 0 {
			return 0, nil
		}
	}
	if len(events) == 0 {
		return 0, nil
	}
	// retrieval
	var order []int
	ssim.WaitForHook("kevent.wait", uintptr(kqfd), kqReady{k, kqfd}, func(r *ssim.Req) {
		q := k.kq(kqfd)
		if q == nil {
			return
		}
		var act []*knote
		for _, n := range q.notes {
			if n.active {
				act = append(act, n)
			}
		}
		// first-activation order
		for i := 1; i < len(act); i++ {
			for j := i; j > 0 && act[j].seq < act[j-1].seq; j-- {
				act[j], act[j-1] = act[j-1], act[j]
			}
		}
		idx := make([]int, len(act))
		for i := range idx {
			idx[i] = i
		}
		if k.Cfg.Permute && len(act) > 1 {
			for i := 0; i < len(act)-1; i++ {
				j := i + ssim.S().Ch.Choose(len(act)-i, "kq-order")
				if j != i {
					k.Permuted++
				}
				idx[i], idx[j] = idx[j], idx[i]
			}
		}
		fit := len(act)
		if fit > len(events) {
			fit = len(events)
		}
		n := fit
		switch k.Cfg.BatchMode {
		case 1:
			if n > 1 {
				n = 1
			}
		default:
			if fit > 1 {
				n = fit - ssim.S().Ch.Choose(fit, "kq-batch")
			}
		}
		order = order[:0]
		for i := 0; i < n; i++ {
			// positions in q.notes of the chosen knotes
			for p, nn := range q.notes {
				if nn == act[idx[i]] {
					order = append(order, p)
				}
			}
		}
	})
	q := k.kq(kqfd)
	if q == nil {
		k.KeventOnClosed++
		return -1, EBADF
	}
	n := 0
	var drop []*knote
	for _, p := range order {
		nn := q.notes[p]
		ev := Kevent_t{Ident: uint64(nn.ident), Filter: nn.filter, Flags: nn.flags &^ (EV_ADD | EV_ENABLE), Fflags: nn.pending}
		if nn.filter == EVFILT_READ {
			ev.Flags |= EV_EOF
		}
		events[n] = ev
		n++
		nn.active = false
		nn.pending = 0
		if nn.flags&EV_ONESHOT != 0 {
			drop = append(drop, nn)
		}
	}
	if len(drop) > 0 {
		var keep []*knote
		for _, nn := range q.notes {
			d := false
			for _, x := range drop {
				if x == nn {
					d = true
				}
			}
			if !d {
				keep = append(keep, nn)
			}
		}
		q.notes = keep
	}
	k.Retrievals++
	ids := ""
	for i := 0; i < n; i++ {
		ids += strconv.Itoa(int(events[i].Ident)) + ","
	}
	k.log("kevent.read", kqfd, ids, nil)
	if n > k.MaxBatch {
		k.MaxBatch = n
	}
	return n, nil
}

// ---------------------------------------------------------------------------
// os functions that are yield points

//go:norace
func Lstat(name string) (os.FileInfo, error) {
	ssim.Yield("lstat")
	return os.Lstat(name)
}

//go:norace
func Stat(name string) (os.FileInfo, error) {
	ssim.Yield("stat")
	return os.Stat(name)
}

//go:norace
func ReadDir(name string) ([]os.DirEntry, error) {
	ssim.Yield("readdir")
	return os.ReadDir(name)
}

//go:norace
func Readlink(name string) (string, error) {
	ssim.Yield("readlink")
	return os.Readlink(name)
}

var _ = unsafe.Sizeof(0)
