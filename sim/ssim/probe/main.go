package main

import (
	"fmt"
	"os"
	"strconv"

	"verifsim/ssim"
	"verifsim/ssync"
)

type box struct {
	mu ssync.Mutex
	m  map[int]int
}

func main() {
	seed, _ := strconv.Atoi(os.Args[1])
	racy := len(os.Args) > 2
	rec := &ssim.Recorder{Inner: ssim.NewRandom(uint64(seed), ssim.Policy{Kind: "random", SwitchProb: 0.5})}
	sc := ssim.New(rec, 100000, ssim.Policy{})
	sc.KeepTrace = true
	b := &box{m: map[int]int{}}
	ch := make(chan int)
	bch := make(chan int, 2)
	done := make(chan struct{})
	var got []int
	sc.Run(func() {
		ssim.Go("prod", "world", func() {
			for i := 0; i < 5; i++ {
				if !racy {
					b.mu.Lock()
				} else {
					ssim.Yield("x")
				}
				b.m[i] = i
				if !racy {
					b.mu.Unlock()
				}
				ssim.Send(ch, i)
				ssim.Send(bch, i*10)
			}
			ssim.Close(done)
		})
		ssim.Go("cons", "consumer", func() {
			for {
				sl, c := ssim.Select(false, ssim.R(ch), ssim.R(bch), ssim.R(done))
				switch c {
				case 0:
					v := <-ch
					sl.Done()
					got = append(got, v)
				case 1:
					v := <-bch
					sl.Done()
					got = append(got, v)
				case 2:
					<-done
					sl.Done()
					return
				}
			}
		})
		for i := 0; i < 5; i++ {
			if !racy {
				b.mu.Lock()
			} else {
				ssim.Yield("y")
			}
			_ = b.m[i]
			if !racy {
				b.mu.Unlock()
			}
		}
	})
	fmt.Println("outcome", sc.Outcome, "steps", sc.Steps, "fp", sc.Fingerprint(), "got", got, "ndec", len(rec.Log))
	for _, l := range sc.Deadlock {
		fmt.Println(l)
	}
}
