// Package ssim is the deterministic scheduler ("S") of the fsnotify simulator.
//
// Every goroutine of the simulated system is a Task. Exactly one task runs at a
// time (two during an unbuffered channel rendezvous, each for exactly one native
// channel operation). A running task runs until its next simulator call, where
// it posts a request and parks; S – a goroutine of its own – computes which
// parked tasks are enabled, asks the Chooser for one and releases it.
//
// Hand-off uses a one-word gate polled in //go:norace functions with
// runtime.Gosched between polls, so that it is invisible to the race detector:
// the only happens-before edges the detector sees are the program's own
// (mutexes, channels, go statements). All task-side functions of this package
// are //go:norace for the same reason.
package ssim

import (
	"fmt"
	"os"
	"reflect"
	"runtime"
	"sort"
	"strings"
	"sync"
	"time"
	"unsafe"
)

// Kind of a parked request.
type Kind uint8

const (
	KStart Kind = iota
	KYield
	KCont
	KWait // conditional wait on a Waiter (mutexes, file reads, joins)
	KSend
	KRecv
	KSelect
	KQuiesce
	KExit
)

var kindNames = [...]string{"start", "yield", "cont", "wait", "send", "recv", "select", "quiesce", "exit"}

//go:norace
func (k Kind) String() string { return kindNames[k] }

// Waiter is a blocking condition evaluated by S.
type Waiter interface{ Ready() bool }

// Dir of a channel case.
type Dir uint8

const (
	DirRecv Dir = iota
	DirSend
)

// Case is one channel operation of a send, receive or select request.
type Case struct {
	Ch  interface{} // the channel value (pointer shaped: no allocation)
	ID  uintptr     // identity of the channel
	Dir Dir
}

// Req is a parked request. It lives in the task and is read by S.
type Req struct {
	Kind       Kind
	Label      string // static site label (constant strings only)
	Obj        uintptr
	W          Waiter
	Cases      []Case
	HasDefault bool
	Chosen     int  // out: chosen case (-1 = default)
	Rdv        bool // out: the granted operation is a rendezvous: park in Cont afterwards
	Aux        int  // out: auxiliary decision made at grant time by a GrantHook
	AuxList    []int
	GrantHook  func(r *Req)
}

// Task is one simulated goroutine.
type Task struct {
	ID     int
	Name   string
	Role   string // "reader", "client", "consumer", "world", "main", ...
	gate   uint32
	posted uint32
	req    *Req
	own    Req
	cases1 [1]Case
	exited bool
	prio   int // PCT priority
	Steps  int
	// Site captured on demand (report mode).
	Site []string
	// Panic captured by the task wrapper.
	Panic      interface{}
	PanicStack string
}

// Chooser makes every nondeterministic decision of a run.
type Chooser interface {
	// Choose returns a value in [0,n). what names the decision class.
	Choose(n int, what string) int
}

// Sched is the scheduler state. One per run.
type Sched struct {
	tasks     []*Task
	live      int
	cur       *Task
	Ch        Chooser
	Steps     int
	MaxSteps  int
	closed    []uintptr
	objOrd    map[uintptr]int
	fp        uint64 // trace fingerprint
	Trace     []string
	KeepTrace bool
	// LockLog records every grant of a reader/writer lock (always on; used by
	// the kqueue leak attribution, which needs to know when a task updated the tables).
	LockLog []LockRec
	// BeforeDecide is called by S before each decision (drains kernel queues).
	BeforeDecide func()
	// Weight returns the scheduling weight of a task (random policy).
	Policy   Policy
	Outcome  string // "", "deadlock", "budget"
	Deadlock []string
	done     uint32
	newTasks []*Task
	stateSet map[uint64]struct{}
	// statistics
	Rendezvous  int
	Switches    int
	lastRun     *Task
	pctChange   map[int]bool
	quiesceCnt  int
	Cands       []*Task // candidates of the pending "sched" decision
	now         int64   // simulated time (ns)
	timers      []*simTimer
	TimersFired int
}

// LockRec is one grant of a reader/writer lock.
type LockRec struct {
	Step int
	Task int
	Excl bool
}

// Policy parameters of the schedule chooser.
type Policy struct {
	Kind       string // "random", "pct", "fifo"
	SwitchProb float64
	Weights    map[string]float64 // by role
	PCTDepth   int
	PCTHorizon int
}

var s *Sched

var exitWG sync.WaitGroup

// Cur returns the running task (valid at entry of any simulator call).
//
//go:norace
func Cur() *Task { return s.cur }

// S returns the scheduler of the current run.
//
//go:norace
func S() *Sched { return s }

//go:norace
//go:noinline
func (t *Task) open() { t.gate = 1 }

//go:norace
//go:noinline
func waitPosted(t *Task) {
	for t.posted == 0 {
		runtime.Gosched()
	}
	t.posted = 0
}

//go:norace
//go:noinline
func waitDone() {
	for s.done == 0 {
		runtime.Gosched()
	}
}

// New creates the scheduler for a run.
//
//go:norace
func New(ch Chooser, maxSteps int, pol Policy) *Sched {
	s = &Sched{Ch: ch, MaxSteps: maxSteps, Policy: pol,
		objOrd: map[uintptr]int{}, stateSet: map[uint64]struct{}{}}
	s.fp = 1469598103934665603
	return s
}

// Run runs main as the first task and schedules until every task has exited,
// a deadlock is found or the step budget is exhausted. It must be called from
// a goroutine that is not a task.
//
//go:norace
func (sc *Sched) Run(mainFn func()) {
	t := sc.newTask("main", "main")
	sc.tasks = append(sc.tasks, t)
	sc.live++
	exitWG.Add(1)
	go taskBody(t, mainFn)
	sc.loop()
	if sc.Outcome == "" {
		exitWG.Wait()
	}
}

//go:norace
func (sc *Sched) newTask(name, role string) *Task {
	t := &Task{ID: len(sc.tasks) + len(sc.newTasks), Name: name, Role: role}
	return t
}

//go:norace
func taskBody(t *Task, fn func()) {
	t.own = Req{Kind: KStart, Label: "start"}
	t.parkReq(&t.own)
	defer func() {
		if r := recover(); r != nil {
			t.Panic = r
			buf := make([]byte, 16384)
			n := runtime.Stack(buf, false)
			t.PanicStack = string(buf[:n])
		}
		t.own = Req{Kind: KExit, Label: "exit"}
		t.req = &t.own
		exitWG.Done() // real synchronisation: everything the task did happens-before Run returns
		t.posted = 1
	}()
	fn()
}

// Go starts fn as a new task. Called by a running task.
//
//go:norace
func Go(name, role string, fn func()) *Task {
	t := s.newTask(name, role)
	s.newTasks = append(s.newTasks, t)
	exitWG.Add(1)
	go taskBody(t, fn)
	// the child parks at its gate; it is registered by S once it has posted.
	return t
}

// GoLib is what a rewritten `go f()` statement of library code calls.
//
//go:norace
func GoLib(fn func()) {
	name := "lib"
	pc, _, _, ok := runtime.Caller(1)
	if ok {
		if f := runtime.FuncForPC(pc); f != nil {
			n := f.Name()
			if i := strings.LastIndex(n, "."); i >= 0 {
				n = n[i+1:]
			}
			name = "lib:" + n
		}
	}
	Go(name, "reader", fn)
	Yield("go")
}

//go:norace
func (sc *Sched) hash(x uint64) {
	sc.fp ^= x
	sc.fp *= 1099511628211
}

//go:norace
func (sc *Sched) ord(id uintptr) int {
	if id == 0 {
		return 0
	}
	o, ok := sc.objOrd[id]
	if !ok {
		o = len(sc.objOrd) + 1
		sc.objOrd[id] = o
	}
	return o
}

// Fingerprint of the trace so far.
//
//go:norace
func (sc *Sched) Fingerprint() uint64 { return sc.fp }

// DistinctStates returns the number of distinct abstract states seen at decisions.
//
//go:norace
func (sc *Sched) DistinctStates() int { return len(sc.stateSet) }

//go:norace
func chanLen(c interface{}) (int, int) {
	v := reflect.ValueOf(c)
	if v.IsNil() {
		return -1, -1
	}
	return v.Len(), v.Cap()
}

// caseReady reports whether channel case c of task t can complete now, and if it
// needs a partner, which tasks could be it.
//
//go:norace
func (sc *Sched) caseReady(t *Task, c *Case, partners *[]*Task, pidx *[]int) bool {
	if c.Ch == nil {
		return false
	}
	ln, cp := chanLen(c.Ch)
	if ln < 0 {
		return false // nil channel
	}
	if sc.isClosed(c.ID) {
		return true // recv: zero value; send: native panic, as it must
	}
	if c.Dir == DirRecv {
		if ln > 0 {
			return true
		}
	} else {
		if ln < cp {
			return true
		}
	}
	// need a partner parked on the opposite direction
	found := false
	for _, o := range sc.tasks {
		if o == t || o.exited || o.req == nil {
			continue
		}
		r := o.req
		if r.Kind != KSend && r.Kind != KRecv && r.Kind != KSelect {
			continue
		}
		for i := range r.Cases {
			oc := &r.Cases[i]
			if oc.ID == c.ID && oc.Dir != c.Dir {
				found = true
				if partners != nil {
					*partners = append(*partners, o)
					*pidx = append(*pidx, i)
				}
			}
		}
	}
	return found
}

//go:norace
func (sc *Sched) enabled(t *Task) bool {
	r := t.req
	switch r.Kind {
	case KStart, KYield, KCont:
		return true
	case KWait:
		return r.W == nil || r.W.Ready()
	case KSend, KRecv:
		return sc.caseReady(t, &r.Cases[0], nil, nil)
	case KSelect:
		if r.HasDefault {
			return true
		}
		for i := range r.Cases {
			if sc.caseReady(t, &r.Cases[i], nil, nil) {
				return true
			}
		}
		return false
	case KQuiesce:
		return false // handled separately
	}
	return false
}

//go:norace
func (sc *Sched) loop() {
	running := []*Task{sc.tasks[0]}
	for {
		// wait for every released task to post its next request
		for _, t := range running {
			waitPosted(t)
			if t.req.Kind == KExit {
				t.exited = true
				sc.live--
			}
		}
		// register tasks spawned meanwhile (each has parked at its start gate)
		for len(sc.newTasks) > 0 {
			nt := sc.newTasks[0]
			sc.newTasks = sc.newTasks[1:]
			waitPosted(nt)
			nt.ID = len(sc.tasks)
			sc.tasks = append(sc.tasks, nt)
			sc.live++
		}
		if sc.live == 0 {
			return
		}
		if sc.BeforeDecide != nil {
			sc.BeforeDecide()
		}
		sc.Steps++
		if sc.Steps > sc.MaxSteps {
			sc.Outcome = "budget"
			sc.captureSites()
			return
		}
		// enabled set
		var en []*Task
		var quiescers []*Task
		for _, t := range sc.tasks {
			if t.exited {
				continue
			}
			if t.req.Kind == KQuiesce {
				quiescers = append(quiescers, t)
				continue
			}
			if sc.enabled(t) {
				en = append(en, t)
			}
		}
		if len(en) == 0 && sc.fireTimer() {
			// the clock jumped to the next deadline; somebody may be runnable now
			running = nil
			continue
		}
		if len(en) == 0 {
			if len(quiescers) == 0 {
				sc.Outcome = "deadlock"
				sc.captureSites()
				return
			}
			en = quiescers[:1]
			sc.quiesceCnt++
		}
		sc.recordState(en)
		t := sc.pick(en)
		running = sc.grant(t)
	}
}

//go:norace
func (sc *Sched) recordState(en []*Task) {
	var h uint64 = 1469598103934665603
	for _, t := range sc.tasks {
		if t.exited {
			h = (h ^ 0xff) * 1099511628211
			continue
		}
		h = (h ^ uint64(t.req.Kind)) * 1099511628211
		for i := 0; i < len(t.req.Label); i++ {
			h = (h ^ uint64(t.req.Label[i])) * 1099511628211
		}
		h = (h ^ uint64(sc.ord(t.req.Obj))) * 1099511628211
	}
	h = (h ^ uint64(len(en))) * 1099511628211
	sc.stateSet[h] = struct{}{}
}

// pick chooses among enabled tasks. Index 0 of the candidate order is "keep
// running the task that ran last" when it is enabled, then ascending task id,
// so that an all-zero decision sequence is the schedule with fewest switches.
//
//go:norace
func (sc *Sched) pick(en []*Task) *Task {
	sort.SliceStable(en, func(i, j int) bool {
		if (en[i] == sc.lastRun) != (en[j] == sc.lastRun) {
			return en[i] == sc.lastRun
		}
		return en[i].ID < en[j].ID
	})
	idx := 0
	if len(en) > 1 {
		sc.Cands = en
		idx = sc.Ch.Choose(len(en), "sched")
		sc.Cands = nil
	}
	t := en[idx]
	if t != sc.lastRun {
		sc.Switches++
	}
	sc.lastRun = t
	return t
}

// Candidates exposes policy data to choosers: the enabled list of the pending
// "sched" decision in candidate order.
//
//go:norace
func (sc *Sched) LastRun() *Task { return sc.lastRun }

//go:norace
func (sc *Sched) grant(t *Task) []*Task {
	r := t.req
	t.Steps++
	r.Rdv = false
	r.Chosen = 0
	var partner *Task
	switch r.Kind {
	case KSend, KRecv, KSelect:
		// choose a ready case
		var ready []int
		for i := range r.Cases {
			if sc.caseReady(t, &r.Cases[i], nil, nil) {
				ready = append(ready, i)
			}
		}
		if len(ready) == 0 {
			r.Chosen = -1 // default
			break
		}
		ci := ready[0]
		if len(ready) > 1 {
			ci = ready[sc.Ch.Choose(len(ready), "selcase")]
		}
		r.Chosen = ci
		c := &r.Cases[ci]
		ln, cp := chanLen(c.Ch)
		direct := sc.isClosed(c.ID) || (c.Dir == DirRecv && ln > 0) || (c.Dir == DirSend && ln < cp)
		if !direct {
			var ps []*Task
			var pi []int
			sc.caseReady(t, c, &ps, &pi)
			k := 0
			if len(ps) > 1 {
				k = sc.Ch.Choose(len(ps), "partner")
			}
			partner = ps[k]
			partner.req.Chosen = pi[k]
			partner.req.Rdv = true
			partner.Steps++
			r.Rdv = true
			sc.Rendezvous++
		}
	}
	if r.GrantHook != nil {
		r.GrantHook(r)
	}
	sc.hash(uint64(t.ID)<<32 | uint64(r.Kind)<<24 | uint64(sc.ord(r.Obj))<<8 | uint64(uint8(r.Chosen+1)))
	if r.Label == "RWMutex.Lock" || r.Label == "RWMutex.RLock" {
		sc.LockLog = append(sc.LockLog, LockRec{Step: sc.Steps, Task: t.ID, Excl: r.Label == "RWMutex.Lock"})
	}
	if sc.KeepTrace {
		line := fmt.Sprintf("%d %s %s %s#%d c=%d", sc.Steps, t.Name, r.Kind, r.Label, sc.ord(r.Obj), r.Chosen)
		if partner != nil {
			line += " with " + partner.Name
		}
		sc.Trace = append(sc.Trace, line)
	}
	sc.cur = t
	if partner != nil {
		sc.hash(uint64(partner.ID) | 0xabcd<<32)
		if partner.req.GrantHook != nil {
			partner.req.GrantHook(partner.req)
		}
		// release the receiver side first is irrelevant: both run their one
		// native operation and park in Cont.
		partner.open()
		t.open()
		return []*Task{t, partner}
	}
	t.open()
	return []*Task{t}
}

//go:norace
func (sc *Sched) captureSites() {
	// Ask each parked task to describe where it is (function names of the
	// frames outside the simulator), then read the answers.
	for _, t := range sc.tasks {
		if t.exited {
			continue
		}
		t.gate = 2
		waitPosted(t)
	}
	for _, t := range sc.tasks {
		if t.exited {
			continue
		}
		r := t.req
		sc.Deadlock = append(sc.Deadlock, fmt.Sprintf("%s[%s] %s %s#%d at %s", t.Name, t.Role, r.Kind, r.Label, sc.ord(r.Obj), strings.Join(t.Site, " < ")))
	}
}

// Pending returns the label of the request the task is parked on ("" if it has exited).
//
//go:norace
func (t *Task) Pending() string {
	if t.exited || t.req == nil {
		return ""
	}
	return t.req.Label
}

// Exited reports whether the task has finished.
//
//go:norace
func (t *Task) Exited() bool { return t.exited }

// Tasks returns the task table.
//
//go:norace
func (sc *Sched) Tasks() []*Task { return sc.tasks }

// ---------------------------------------------------------------------------
// task side

//go:norace
//go:noinline
func (t *Task) parkReq(r *Req) {
	t.req = r
	t.posted = 1
	for {
		for t.gate == 0 {
			runtime.Gosched()
		}
		if t.gate == 2 { // report mode: describe the site, stay parked for good
			t.gate = 0
			t.Site = callerSite()
			t.posted = 1
			for {
				runtime.Gosched()
			}
		}
		t.gate = 0
		return
	}
}

//go:norace
func callerSite() []string {
	pcs := make([]uintptr, 32)
	n := runtime.Callers(3, pcs)
	fr := runtime.CallersFrames(pcs[:n])
	var out []string
	for {
		f, more := fr.Next()
		fn := f.Function
		if fn != "" && !strings.Contains(fn, "verifsim/") && !strings.HasPrefix(fn, "runtime.") {
			if i := strings.LastIndex(fn, "/"); i >= 0 {
				fn = fn[i+1:]
			}
			out = append(out, fmt.Sprintf("%s:%d", fn, f.Line))
		}
		if !more || len(out) >= 8 {
			break
		}
	}
	return out
}

// Yield is a plain scheduling point.
//
//go:norace
func Yield(label string) {
	t := s.cur
	t.own = Req{Kind: KYield, Label: label}
	t.parkReq(&t.own)
}

// WaitFor parks until w.Ready() and the task is chosen. The caller applies the
// effect of the granted operation itself (it runs alone).
//
//go:norace
func WaitFor(label string, obj uintptr, w Waiter) {
	t := s.cur
	t.own = Req{Kind: KWait, Label: label, Obj: obj, W: w}
	t.parkReq(&t.own)
}

// WaitForHook is WaitFor with a hook that S runs at grant time (it may call the
// Chooser); the hook's result is returned through Req.Aux.
//
//go:norace
func WaitForHook(label string, obj uintptr, w Waiter, hook func(r *Req)) int {
	t := s.cur
	t.own = Req{Kind: KWait, Label: label, Obj: obj, W: w, GrantHook: hook}
	t.parkReq(&t.own)
	return t.own.Aux
}

// Quiesce parks until no other task is enabled.
//
//go:norace
func Quiesce() {
	t := s.cur
	t.own = Req{Kind: KQuiesce, Label: "quiesce"}
	t.parkReq(&t.own)
}

//go:norace
func chanID[T any](ch chan T) uintptr { return uintptr(*(*unsafe.Pointer)(unsafe.Pointer(&ch))) }

//go:norace
func (t *Task) afterOp(r *Req) {
	if r.Rdv {
		t.own = Req{Kind: KCont, Label: "cont"}
		t.parkReq(&t.own)
	}
}

// Send is the rewritten `ch <- v`.
//
//go:norace
func Send[T any](ch chan<- T, v T) {
	t := s.cur
	bi := *(*chan T)(unsafe.Pointer(&ch))
	t.cases1[0] = Case{Ch: bi, ID: chanID(bi), Dir: DirSend}
	if bi == nil {
		t.cases1[0].Ch = nil
	}
	var r Req
	r = Req{Kind: KSend, Label: "send", Obj: t.cases1[0].ID, Cases: t.cases1[:]}
	t.parkReq(&r)
	ch <- v
	t.afterOp(&r)
}

// Recv is the rewritten `<-ch`.
//
//go:norace
func Recv[T any](ch <-chan T) T {
	v, _ := Recv2(ch)
	return v
}

// Recv2 is the rewritten `v, ok := <-ch`.
//
//go:norace
func Recv2[T any](ch <-chan T) (T, bool) {
	t := s.cur
	bi := *(*chan T)(unsafe.Pointer(&ch))
	var cs [1]Case
	cs[0] = Case{Ch: bi, ID: chanID(bi), Dir: DirRecv}
	if bi == nil {
		cs[0].Ch = nil
	}
	r := Req{Kind: KRecv, Label: "recv", Obj: cs[0].ID, Cases: cs[:]}
	t.parkReq(&r)
	v, ok := <-ch
	t.afterOp(&r)
	return v, ok
}

// Close is the rewritten close(ch).
//
//go:norace
func Close[T any](ch chan<- T) {
	bi := *(*chan T)(unsafe.Pointer(&ch))
	Yield("close")
	if bi != nil {
		markClosed(chanID(bi))
	}
	close(ch)
}

//go:norace
func markClosed(id uintptr) { s.closed = append(s.closed, id) }

//go:norace
func (sc *Sched) isClosed(id uintptr) bool {
	for _, c := range sc.closed {
		if c == id {
			return true
		}
	}
	return false
}

// R and Sd build select cases.
//
//go:norace
func R[T any](ch <-chan T) Case {
	bi := *(*chan T)(unsafe.Pointer(&ch))
	if bi == nil {
		return Case{Dir: DirRecv}
	}
	return Case{Ch: bi, ID: chanID(bi), Dir: DirRecv}
}

//go:norace
func Sd[T any](ch chan<- T) Case {
	bi := *(*chan T)(unsafe.Pointer(&ch))
	if bi == nil {
		return Case{Dir: DirSend}
	}
	return Case{Ch: bi, ID: chanID(bi), Dir: DirSend}
}

// Sel is an in-progress select.
type Sel struct {
	t *Task
	r Req
}

// Select parks until one of the cases can complete (or immediately if there is
// a default) and returns the chosen case index, -1 for default. The caller then
// performs exactly that native operation and calls Done.
//
//go:norace
func Select(hasDefault bool, cases ...Case) (*Sel, int) {
	t := s.cur
	sl := &Sel{t: t}
	sl.r = Req{Kind: KSelect, Label: "select", Cases: cases, HasDefault: hasDefault}
	if len(cases) > 0 {
		sl.r.Obj = cases[0].ID
	}
	t.parkReq(&sl.r)
	return sl, sl.r.Chosen
}

// Done ends the native operation of a select.
//
//go:norace
func (sl *Sel) Done() { sl.t.afterOp(&sl.r) }

// MapKeys returns the keys of m in a canonical order permuted by the chooser.
//
//go:norace
func MapKeys[M ~map[K]V, K comparable, V any](m M) []K {
	keys := make([]K, 0, len(m))
	for k := range m {
		keys = append(keys, k)
	}
	if len(keys) < 2 {
		return keys
	}
	sort.Slice(keys, func(i, j int) bool { return fmt.Sprint(keys[i]) < fmt.Sprint(keys[j]) })
	n := len(keys)
	t := s.cur
	t.own = Req{Kind: KYield, Label: "maporder", GrantHook: func(r *Req) {
		// Fisher–Yates driven by the chooser; choice 0 everywhere = sorted order.
		r.AuxList = r.AuxList[:0]
		for i := 0; i < n-1; i++ {
			r.AuxList = append(r.AuxList, s.Ch.Choose(n-i, "maporder"))
		}
	}}
	t.parkReq(&t.own)
	for i, d := range t.own.AuxList {
		keys[i], keys[i+d] = keys[i+d], keys[i]
	}
	return keys
}

// Choose lets harness code running as a task draw a recorded decision. It is a
// scheduling point.
//
//go:norace
func Choose(n int, what string) int {
	if n <= 1 {
		return 0
	}
	t := s.cur
	t.own = Req{Kind: KYield, Label: "choose", GrantHook: func(r *Req) { r.Aux = s.Ch.Choose(n, what) }}
	t.parkReq(&t.own)
	return t.own.Aux
}

// Fatal aborts the process: the simulator itself is broken.
//
//go:norace
func Fatal(format string, a ...interface{}) {
	fmt.Fprintf(os.Stderr, "SIMULATOR-ERROR: "+format+"\n", a...)
	os.Exit(2)
}

// ---------------------------------------------------------------------------
// Simulated time. fsnotify has no timers; these exist so that a change which
// introduces a timeout is simulated (discrete-event: when nothing else can run,
// the clock jumps to the earliest deadline) instead of being refused.

type simTimer struct {
	at      int64
	ch      chan time.Time
	fn      func()
	stopped bool
	fired   bool
}

// Timer is the drop-in for time.Timer.
type Timer struct {
	C <-chan time.Time
	t *simTimer
}

//go:norace
func newTimer(d time.Duration, fn func()) *Timer {
	st := &simTimer{at: s.now + int64(d), fn: fn}
	if fn == nil {
		st.ch = make(chan time.Time, 1)
	}
	s.timers = append(s.timers, st)
	return &Timer{C: st.ch, t: st}
}

// NewTimer is time.NewTimer on the simulated clock.
//
//go:norace
func NewTimer(d time.Duration) *Timer { Yield("timer"); return newTimer(d, nil) }

// After is time.After on the simulated clock.
//
//go:norace
func After(d time.Duration) <-chan time.Time { Yield("timer"); return newTimer(d, nil).C }

// AfterFunc is time.AfterFunc on the simulated clock; f runs as a task of its own.
//
//go:norace
func AfterFunc(d time.Duration, f func()) *Timer { Yield("timer"); return newTimer(d, f) }

// Now is time.Now on the simulated clock (an arbitrary epoch plus simulated time).
//
//go:norace
func Now() time.Time { return time.Unix(1_700_000_000, 0).Add(time.Duration(s.now)) }

// Since is time.Since on the simulated clock.
//
//go:norace
func Since(t time.Time) time.Duration { return Now().Sub(t) }

// Sleep is time.Sleep on the simulated clock.
//
//go:norace
func Sleep(d time.Duration) {
	t := newTimer(d, nil)
	Recv(t.C)
}

// Stop is Timer.Stop.
//
//go:norace
func (t *Timer) Stop() bool {
	Yield("timer.stop")
	was := !t.t.stopped && !t.t.fired
	t.t.stopped = true
	return was
}

// Reset is Timer.Reset.
//
//go:norace
func (t *Timer) Reset(d time.Duration) bool {
	Yield("timer.reset")
	was := !t.t.stopped && !t.t.fired
	t.t.stopped, t.t.fired = false, false
	t.t.at = s.now + int64(d)
	found := false
	for _, x := range s.timers {
		if x == t.t {
			found = true
		}
	}
	if !found {
		s.timers = append(s.timers, t.t)
	}
	return was
}

// fireTimer advances the simulated clock to the earliest pending deadline and
// fires that timer. Reports whether there was one.
//
//go:norace
func (sc *Sched) fireTimer() bool {
	best := -1
	for i, t := range sc.timers {
		if t.stopped || t.fired {
			continue
		}
		if best < 0 || t.at < sc.timers[best].at {
			best = i
		}
	}
	if best < 0 {
		return false
	}
	t := sc.timers[best]
	if t.at > sc.now {
		sc.now = t.at
	}
	t.fired = true
	sc.TimersFired++
	if t.fn != nil {
		nt := sc.newTask("timerfunc", "reader")
		sc.newTasks = append(sc.newTasks, nt)
		exitWG.Add(1)
		go taskBody(nt, t.fn)
	} else {
		select {
		case t.ch <- time.Unix(0, sc.now):
		default:
		}
	}
	return true
}
