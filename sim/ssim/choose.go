package ssim

// RNG is splitmix64: stable across Go versions, one integer of state.
type RNG struct{ S uint64 }

//go:norace
func (r *RNG) Next() uint64 {
	r.S += 0x9e3779b97f4a7c15
	z := r.S
	z = (z ^ (z >> 30)) * 0xbf58476d1ce4e5b9
	z = (z ^ (z >> 27)) * 0x94d049bb133111eb
	return z ^ (z >> 31)
}

//go:norace
func (r *RNG) Intn(n int) int {
	if n <= 1 {
		return 0
	}
	return int(r.Next() % uint64(n))
}

//go:norace
func (r *RNG) Float() float64 { return float64(r.Next()>>11) / float64(1<<53) }

// Mix derives a seed from parts.
//
//go:norace
func Mix(parts ...uint64) uint64 {
	r := RNG{S: 0x1234567}
	for _, p := range parts {
		r.S ^= p
		r.Next()
		r.S = r.Next()
	}
	return r.Next()
}

// Recorder records every decision of an inner chooser.
type Recorder struct {
	Inner Chooser
	Log   []int
	Count map[string]int
}

//go:norace
func (c *Recorder) Choose(n int, what string) int {
	v := c.Inner.Choose(n, what)
	c.Log = append(c.Log, v)
	if c.Count == nil {
		c.Count = map[string]int{}
	}
	c.Count[what]++
	return v
}

// Replay feeds recorded decisions; a decision that is out of range or missing
// falls back to 0, the default decision (keep running the current task, first
// ready case, sorted map order, no fault, largest batch).
type Replay struct {
	Dec []int
	Pos int
}

//go:norace
func (c *Replay) Choose(n int, what string) int {
	v := 0
	if c.Pos < len(c.Dec) {
		v = c.Dec[c.Pos]
	}
	c.Pos++
	if v < 0 || v >= n {
		v = 0
	}
	return v
}

// Random is the seeded chooser used for exploration.
type Random struct {
	R   RNG
	Pol Policy
	pri map[int]float64
	chg map[int]bool
	n   int
}

//go:norace
func NewRandom(seed uint64, pol Policy) *Random {
	c := &Random{R: RNG{S: seed}, Pol: pol, pri: map[int]float64{}, chg: map[int]bool{}}
	if pol.Kind == "pct" {
		h := pol.PCTHorizon
		if h <= 0 {
			h = 200
		}
		for i := 0; i < pol.PCTDepth; i++ {
			c.chg[1+c.R.Intn(h)] = true
		}
	}
	return c
}

//go:norace
func (c *Random) weight(t *Task) float64 {
	if w, ok := c.Pol.Weights[t.Role]; ok {
		return w
	}
	return 1
}

//go:norace
func (c *Random) Choose(n int, what string) int {
	if what != "sched" || s == nil || len(s.Cands) != n {
		return c.R.Intn(n)
	}
	c.n++
	cands := s.Cands
	switch c.Pol.Kind {
	case "fifo":
		return 0
	case "pct":
		best, bi := -1.0, 0
		for i, t := range cands {
			p, ok := c.pri[t.ID]
			if !ok {
				p = 1 + c.R.Float()*c.weight(t)
				c.pri[t.ID] = p
			}
			if p > best {
				best, bi = p, i
			}
		}
		if c.chg[c.n] {
			c.pri[cands[bi].ID] = c.R.Float() * 0.5 // demote
		}
		return bi
	default:
		if cands[0] == s.lastRun && c.R.Float() >= c.Pol.SwitchProb {
			return 0
		}
		tot := 0.0
		for _, t := range cands {
			tot += c.weight(t)
		}
		x := c.R.Float() * tot
		for i, t := range cands {
			x -= c.weight(t)
			if x < 0 {
				return i
			}
		}
		return n - 1
	}
}
