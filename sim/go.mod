module verifsim

go 1.21

require golang.org/x/sys v0.13.0
