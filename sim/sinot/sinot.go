// Package sinot is the simulator's side of inotify: the real kernel stays the
// source of truth for inotify and VFS semantics, and the simulator sits between
// the kernel and the library's reader. Every real inotify descriptor is drained
// (non-blocking) into a simulator-owned queue after each step; the queue
// re-implements tail coalescing and the overflow rule with a per-run limit, and
// File.Read hands a chooser-decided number of whole records to the reader.
package sinot

import (
	"encoding/binary"
	"fmt"
	"os"
	"runtime"
	"sync"
	"syscall"
	"time"

	"golang.org/x/sys/unix"
	"verifsim/ssim"
)

// Record is one inotify_event.
type Record struct {
	Wd     int32
	Mask   uint32
	Cookie uint32
	Name   string // up to the first NUL
	Raw    []byte // header + padded name, verbatim from the kernel
	Step   int    // scheduler step in which the kernel produced it
	Inode  uint64 // inode the wd was bound to (0 = unknown / overflow)
	// Fed stream only:
	FeedStep int // step of the read that handed it to the reader
	Seq      int // index in Fed
}

//go:norace
func (r Record) String() string {
	return fmt.Sprintf("{wd=%d ino=%d mask=%s cookie=%d name=%q step=%d}", r.Wd, r.Inode, MaskString(r.Mask), r.Cookie, r.Name, r.Step)
}

// Call is one inotify syscall made by library code.
type Call struct {
	Step   int
	Task   int
	Kind   string // "init", "add", "rm", "close"
	Path   string
	Mask   uint32
	Wd     int
	Inode  uint64
	Errno  syscall.Errno
	Forced bool // errno injected by the fault gate; the real syscall was not made
}

// Binding is what a wd of an instance is bound to.
type Binding struct {
	Wd    int32
	Inode uint64
	Step  int
	Path  string
	Mask  uint32
}

// Instance is one inotify instance created by library code.
type Instance struct {
	Ord       int
	Creator   int // id of the task that made the instance
	CloExec   bool // created with IN_CLOEXEC
	FD        int
	KeepFD    int // duplicate (>= 1000) that keeps the kernel object alive so that the library's close is fast; released asynchronously
	Queue     []Record
	Closed    bool
	Pollable  bool
	Limit     int // queue limit (0 = unlimited)
	Coalesce  bool
	Fed       []Record
	Dropped   []Record
	Merged    []Record
	Overflow  int       // overflow episodes
	Bind      []Binding // indexed by wd; Wd==0 means unbound
	Calls     []Call
	Reads     int
	ReadCalls []int // step at which each Read was invoked
	MaxBatch  int
	// reach probes
	OffsetNZ   int // records decoded at a non-zero buffer offset
	PadHist    [16]int
	BatchHist  []int // by min(k,63)
	ReadFaults int
	TooSmall   int // reads that failed with EINVAL because the first queued record does not fit the caller's buffer
	// F8: MOVED_TO halves held back so that halves of renames issued by
	// different tasks interleave, as inotify(7) allows on SMP
	held      []heldRec
	Reordered int
}

type heldRec struct {
	r     Record
	wait  int
	owner int
}

// Binding returns what wd is bound to.
//
//go:norace
func (in *Instance) Binding(wd int32) (Binding, bool) {
	if wd <= 0 || int(wd) >= len(in.Bind) || in.Bind[wd].Wd == 0 {
		return Binding{}, false
	}
	return in.Bind[wd], true
}

// Counter is a tiny name → count table (no map: runtime map functions are
// race-instrumented even when the caller is not).
type Counter struct {
	Names  []string
	Counts []int
}

//go:norace
func (c *Counter) Inc(name string) {
	for i, n := range c.Names {
		if n == name {
			c.Counts[i]++
			return
		}
	}
	c.Names = append(c.Names, name)
	c.Counts = append(c.Counts, 1)
}

//go:norace
func (c *Counter) Get(name string) int {
	for i, n := range c.Names {
		if n == name {
			return c.Counts[i]
		}
	}
	return 0
}

// Sim is the per-run inotify simulation state.
type Sim struct {
	Inst   []*Instance
	Dirty  bool
	Shadow *Shadow
	Cfg    Config
	Faults Counter // fired counts by kind
	// WorldTask is the task that performed the filesystem step being drained (set by the harness)
	WorldTask int
	InitLeak  int
}

// Config are the per-run knobs.
type Config struct {
	QueueLimit  int  // 0 = unlimited
	Coalesce    bool // tail coalescing in the simulator queue
	BatchMode   int  // 0: any k (0 = all); 1: always one record per read; 2: always all
	FaultAdd    int  // 0 off; else 1-in-N adds fail
	FaultInit   int  // 0 off; else 1-in-N inits fail
	FaultRead   int  // 0 off; else 1-in-N reads return a transient error
	MaxAddFault int  // cap of injected add faults per run
	Reorder     int  // F8: 0 off; else a MOVED_TO may be delayed past up to this many rename records of other tasks
}

var sim *Sim

// New resets the simulation for a run.
//
//go:norace
func New(cfg Config) *Sim {
	sim = &Sim{Cfg: cfg}
	return sim
}

// instByFD returns the open instance that owns descriptor fd.
//
//go:norace
func (s *Sim) instByFD(fd int) *Instance {
	for i := len(s.Inst) - 1; i >= 0; i-- {
		if s.Inst[i].FD == fd && !s.Inst[i].Closed {
			return s.Inst[i]
		}
	}
	return nil
}

// Get returns the current simulation.
//
//go:norace
func Get() *Sim { return sim }

// Shadow is the harness-owned IN_ALL_EVENTS instance: ground truth G.
type Shadow struct {
	FD    int
	G     []Record
	WdIno map[int32]uint64
	InoWd map[uint64]int32
}

var shadowFD = -1

// NewShadow creates (once per process) or recycles the shadow instance. Closing
// an inotify instance costs an SRCU grace period (10–20 ms), so the shadow is
// kept across runs: the scratch tree of the previous run is gone, hence so are
// its watches; leftovers in the queue are discarded here.
//
//go:norace
func (s *Sim) NewShadow() error {
	if shadowFD < 0 {
		fd, err := realInit(unix.IN_CLOEXEC | unix.IN_NONBLOCK)
		if err != nil {
			return err
		}
		nfd, err := unix.FcntlInt(uintptr(fd), unix.F_DUPFD_CLOEXEC, 900)
		if err == nil {
			unix.Close(fd)
			fd = nfd
		}
		shadowFD = fd
	}
	drainFD(shadowFD, 0, func(Record) {})
	s.Shadow = &Shadow{FD: shadowFD, WdIno: map[int32]uint64{}, InoWd: map[uint64]int32{}}
	return nil
}

// realInit is inotify_init1 with patience: a real EMFILE means the asynchronous
// releases have not caught up yet (environment, not behaviour).
//
//go:norace
func realInit(flags int) (int, error) {
	var fd int
	var err error
	for i := 0; i < 400; i++ {
		fd, err = unix.InotifyInit1(flags)
		if err != unix.EMFILE && err != unix.ENFILE {
			return fd, err
		}
		time.Sleep(5 * time.Millisecond)
	}
	return fd, err
}

var (
	closerOnce sync.Once
	closerCh   chan int
)

// ReleaseLater closes a kept duplicate on a background thread.
//
//go:norace
func ReleaseLater(fd int) {
	if fd < 0 {
		return
	}
	closerOnce.Do(func() {
		n := 24
		if v := os.Getenv("VERIF_CLOSERS"); v != "" {
			fmt.Sscanf(v, "%d", &n)
		}
		closerCh = make(chan int, n)
		for i := 0; i < n; i++ {
			go func() {
				runtime.LockOSThread()
				for fd := range closerCh {
					unix.Close(fd)
				}
			}()
		}
	})
	closerCh <- fd
}

// Track puts an IN_ALL_EVENTS watch on the inode at path (not following links).
//
//go:norace
func (s *Sim) Track(path string) {
	if s.Shadow == nil {
		return
	}
	var st unix.Stat_t
	if err := unix.Lstat(path, &st); err != nil {
		return
	}
	if _, ok := s.Shadow.InoWd[st.Ino]; ok {
		return
	}
	wd, err := unix.InotifyAddWatch(s.Shadow.FD, path, unix.IN_ALL_EVENTS|unix.IN_DONT_FOLLOW)
	if err != nil {
		ssim.Fatal("shadow add_watch %s: %v", path, err)
	}
	s.Shadow.WdIno[int32(wd)] = st.Ino
	s.Shadow.InoWd[st.Ino] = int32(wd)
}

// CloseShadow ends the use of the shadow instance by this run (it is recycled).
//
//go:norace
func (s *Sim) CloseShadow() {}

//go:norace
func parse(buf []byte, step int, f func(Record)) {
	for off := 0; off+16 <= len(buf); {
		wd := int32(binary.LittleEndian.Uint32(buf[off:]))
		mask := binary.LittleEndian.Uint32(buf[off+4:])
		cookie := binary.LittleEndian.Uint32(buf[off+8:])
		ln := int(binary.LittleEndian.Uint32(buf[off+12:]))
		raw := make([]byte, 16+ln)
		copy(raw, buf[off:off+16+ln])
		name := raw[16:]
		for i, b := range name {
			if b == 0 {
				name = name[:i]
				break
			}
		}
		f(Record{Wd: wd, Mask: mask, Cookie: cookie, Name: string(name), Raw: raw, Step: step})
		off += 16 + ln
	}
}

var drainBuf [1 << 18]byte

//go:norace
func drainFD(fd int, step int, f func(Record)) {
	for {
		n, err := unix.Read(fd, drainBuf[:])
		if n > 0 {
			parse(drainBuf[:n], step, f)
		}
		if err == unix.EINTR {
			continue
		}
		if err != nil || n <= 0 {
			return
		}
	}
}

// Drain moves everything the kernel has queued into the simulator queues.
// Called by S before each decision when a step may have produced notifications.
//
//go:norace
func (s *Sim) Drain(step int) {
	if !s.Dirty {
		return
	}
	s.Dirty = false
	if s.Shadow != nil {
		sh := s.Shadow
		drainFD(sh.FD, step, func(r Record) {
			r.Inode = sh.WdIno[r.Wd]
			sh.G = append(sh.G, r)
			if r.Mask&unix.IN_IGNORED != 0 {
				// the inode is gone for good (or the shadow watch was dropped)
				delete(sh.InoWd, sh.WdIno[r.Wd])
			}
		})
	}
	for _, in := range s.Inst {
		if in.Closed {
			continue
		}
		in := in
		if s.Cfg.Reorder > 0 {
			in.releaseOwner(s.WorldTask)
		}
		drainFD(in.FD, step, func(r Record) { in.enqueueF8(r, s) })
	}
}

// releaseOwner puts back the halves held for a task before that task's next
// operation is recorded: its own later events cannot overtake them.
//
//go:norace
func (in *Instance) releaseOwner(task int) {
	var keep []heldRec
	for _, h := range in.held {
		if h.owner == task {
			in.enqueue(h.r)
		} else {
			keep = append(keep, h)
		}
	}
	in.held = keep
}

// Flush releases everything that is held back.
//
//go:norace
func (in *Instance) Flush() {
	for _, h := range in.held {
		in.enqueue(h.r)
	}
	in.held = nil
}

//go:norace
func (in *Instance) enqueueF8(r Record, s *Sim) {
	if s.Cfg.Reorder > 0 && r.Mask&unix.IN_MOVED_TO != 0 && r.Cookie != 0 {
		if d := ssim.S().Ch.Choose(s.Cfg.Reorder+1, "reorder"); d > 0 {
			in.held = append(in.held, heldRec{r: r, wait: d, owner: s.WorldTask})
			return
		}
	}
	in.enqueue(r)
	if len(in.held) > 0 && r.Mask&(unix.IN_MOVED_FROM|unix.IN_MOVED_TO) != 0 {
		var keep []heldRec
		for _, h := range in.held {
			if h.owner != s.WorldTask {
				h.wait--
				if h.wait <= 0 {
					in.enqueue(h.r)
					in.Reordered++
					continue
				}
			}
			keep = append(keep, h)
		}
		in.held = keep
	}
}

//go:norace
func (in *Instance) enqueue(r Record) {
	if b, ok := in.Binding(r.Wd); ok {
		r.Inode = b.Inode
	}
	if n := len(in.Queue); n > 0 && in.Coalesce {
		t := in.Queue[n-1]
		if t.Mask&unix.IN_IGNORED == 0 && t.Mask == r.Mask && t.Wd == r.Wd && t.Name == r.Name {
			in.Merged = append(in.Merged, r)
			return
		}
	}
	if in.Limit > 0 && len(in.Queue) >= in.Limit {
		in.Dropped = append(in.Dropped, r)
		for _, q := range in.Queue {
			if q.Mask&unix.IN_Q_OVERFLOW != 0 {
				return
			}
		}
		raw := make([]byte, 16)
		binary.LittleEndian.PutUint32(raw[0:], 0xffffffff)
		binary.LittleEndian.PutUint32(raw[4:], unix.IN_Q_OVERFLOW)
		in.Queue = append(in.Queue, Record{Wd: -1, Mask: unix.IN_Q_OVERFLOW, Raw: raw, Step: r.Step})
		in.Overflow++
		return
	}
	if r.Mask&unix.IN_Q_OVERFLOW != 0 {
		in.Overflow++ // a real kernel overflow
	}
	in.Queue = append(in.Queue, r)
}

// ---------------------------------------------------------------------------
// syscalls made by library code

//go:norace
func faultHook(n int, what string) func(r *ssim.Req) {
	return func(r *ssim.Req) {
		r.Aux = 0
		if n > 0 {
			r.Aux = ssim.S().Ch.Choose(n, what)
		}
	}
}

var addErrnos = []syscall.Errno{unix.ENOSPC, unix.ENOMEM, unix.EACCES}
var initErrnos = []syscall.Errno{unix.EMFILE, unix.ENFILE, unix.ENOMEM}

// InotifyInit1 is the shim for unix.InotifyInit1.
//
//go:norace
func InotifyInit1(flags int) (int, error) {
	s := sim
	n := 0
	if s.Cfg.FaultInit > 0 {
		n = s.Cfg.FaultInit
	}
	aux := ssim.WaitForHook("inotify_init1", 0, nil, faultHook(n, "fault-init"))
	step := ssim.S().Steps
	if aux > 0 && aux <= len(initErrnos) {
		e := initErrnos[aux-1]
		s.Faults.Inc("F5-init-" + e.Error())
		return -1, e
	}
	fd, err := realInit(flags)
	if err != nil {
		return fd, err
	}
	keep, kerr := unix.FcntlInt(uintptr(fd), unix.F_DUPFD_CLOEXEC, 1000)
	if kerr != nil {
		keep = -1
	}
	fl, _ := unix.FcntlInt(uintptr(fd), unix.F_GETFL, 0)
	in := &Instance{Ord: len(s.Inst), Creator: ssim.Cur().ID, CloExec: flags&unix.IN_CLOEXEC != 0, FD: fd, KeepFD: keep, Pollable: fl&unix.O_NONBLOCK != 0, Limit: s.Cfg.QueueLimit,
		Coalesce: s.Cfg.Coalesce, BatchHist: make([]int, 64)}
	in.Calls = append(in.Calls, Call{Step: step, Task: ssim.Cur().ID, Kind: "init", Wd: fd})
	s.Inst = append(s.Inst, in)
	return fd, nil
}

// InotifyAddWatch is the shim for unix.InotifyAddWatch.
//
//go:norace
func InotifyAddWatch(fd int, path string, mask uint32) (int, error) {
	s := sim
	in := s.instByFD(fd)
	n := 0
	if s.Cfg.FaultAdd > 0 && s.Faults.Get("F4") < s.Cfg.MaxAddFault {
		n = s.Cfg.FaultAdd
	}
	aux := ssim.WaitForHook("inotify_add_watch", 0, nil, faultHook(n, "fault-add"))
	step := ssim.S().Steps
	c := Call{Step: step, Task: ssim.Cur().ID, Kind: "add", Path: path, Mask: mask, Wd: -1}
	if aux > 0 && aux <= len(addErrnos) {
		e := addErrnos[aux-1]
		s.Faults.Inc("F4")
		s.Faults.Inc("F4-add-" + e.Error())
		c.Errno, c.Forced = e, true
		if in != nil {
			in.Calls = append(in.Calls, c)
		}
		return -1, e
	}
	wd, err := unix.InotifyAddWatch(fd, path, mask)
	if err != nil {
		c.Errno, _ = err.(syscall.Errno)
		if in != nil && !in.Closed {
			in.Calls = append(in.Calls, c)
		}
		return wd, err
	}
	c.Wd = wd
	var st unix.Stat_t
	var serr error
	if mask&unix.IN_DONT_FOLLOW != 0 {
		serr = unix.Lstat(path, &st)
	} else {
		serr = unix.Stat(path, &st)
	}
	if serr == nil {
		c.Inode = st.Ino
	}
	// the library may be talking to a descriptor number that now belongs to
	// somebody else (its own instance was closed and the number reused)
	if in == nil || in.Closed {
		in = s.instByFD(fd)
	}
	if in != nil {
		in.Calls = append(in.Calls, c)
		for len(in.Bind) <= wd {
			in.Bind = append(in.Bind, Binding{})
		}
		if in.Bind[wd].Wd == 0 {
			in.Bind[wd] = Binding{Wd: int32(wd), Inode: c.Inode, Step: step, Path: path, Mask: mask}
		} else {
			b := in.Bind[wd]
			if mask&unix.IN_MASK_ADD != 0 {
				b.Mask |= mask
			} else {
				b.Mask = mask
			}
			in.Bind[wd] = b
		}
	}
	return wd, nil
}

// InotifyRmWatch is the shim for unix.InotifyRmWatch.
//
//go:norace
func InotifyRmWatch(fd int, wd uint32) (int, error) {
	s := sim
	ssim.Yield("inotify_rm_watch")
	step := ssim.S().Steps
	// whoever owns the number now is who the kernel acts on
	in := s.instByFD(fd)
	r, err := unix.InotifyRmWatch(fd, wd)
	c := Call{Step: step, Task: ssim.Cur().ID, Kind: "rm", Wd: int(wd)}
	if err != nil {
		c.Errno, _ = err.(syscall.Errno)
		if c.Errno == unix.EINVAL {
			s.Faults.Inc("F6-rm-EINVAL-natural")
		}
	}
	if in != nil {
		in.Calls = append(in.Calls, c)
	}
	s.Dirty = true
	return r, err
}

// ---------------------------------------------------------------------------
// the file the reader reads from

// File is the drop-in for the *os.File that wraps the inotify descriptor.
type File struct {
	in     *Instance
	fd     int
	name   string
	closed bool
}

// NewFile is the shim for os.NewFile.
//
//go:norace
func NewFile(fd uintptr, name string) *File {
	in := sim.instByFD(int(fd))
	if in == nil {
		ssim.Fatal("os.NewFile on a descriptor (%d) that is not a simulated inotify instance", fd)
	}
	return &File{in: in, fd: int(fd), name: name}
}

type readReady struct {
	f           *File
	beforeClose bool
}

//go:norace
func (w *readReady) Ready() bool {
	in := w.f.in
	if in.Closed {
		return in.Pollable || !w.beforeClose
	}
	return len(in.Queue) > 0 || len(in.held) > 0
}

// Read hands k whole records to the caller, k decided by the chooser.
//
//go:norace
func (f *File) Read(b []byte) (int, error) {
	in := f.in
	w := &readReady{f: f, beforeClose: !in.Closed}
	in.ReadCalls = append(in.ReadCalls, ssim.S().Steps)
	var k int
	fault := false
	ssim.WaitForHook("inotify.read", uintptr(in.Ord+1), w, func(r *ssim.Req) {
		if in.Closed {
			return
		}
		if len(in.Queue) == 0 {
			in.Flush()
		}
		if sim.Cfg.FaultRead > 0 && ssim.S().Ch.Choose(sim.Cfg.FaultRead, "fault-read") == 1 {
			fault = true
			return
		}
		// how many records fit
		fit, sz := 0, 0
		for _, q := range in.Queue {
			if sz+len(q.Raw) > len(b) {
				break
			}
			sz += len(q.Raw)
			fit++
		}
		k = fit
		switch sim.Cfg.BatchMode {
		case 1:
			if k > 1 {
				k = 1
			}
		case 2:
		default:
			if fit > 1 {
				k = fit - ssim.S().Ch.Choose(fit, "batch")
			}
		}
	})
	if in.Closed {
		return 0, &os.PathError{Op: "read", Path: f.name, Err: os.ErrClosed}
	}
	if fault {
		in.ReadFaults++
		sim.Faults.Inc("F9-read-EINTR")
		return 0, &os.PathError{Op: "read", Path: f.name, Err: unix.EINTR}
	}
	if k == 0 {
		in.TooSmall++
		// first record does not fit: the kernel says EINVAL
		return 0, &os.PathError{Op: "read", Path: f.name, Err: unix.EINVAL}
	}
	step := ssim.S().Steps
	off := 0
	for i := 0; i < k; i++ {
		q := in.Queue[i]
		copy(b[off:], q.Raw)
		if off > 0 {
			in.OffsetNZ++
		}
		if len(q.Raw) > 16 {
			in.PadHist[(len(q.Raw)-16-len(q.Name))%16]++
		}
		off += len(q.Raw)
		q.FeedStep = step
		q.Seq = len(in.Fed)
		in.Fed = append(in.Fed, q)
	}
	in.Queue = append([]Record(nil), in.Queue[k:]...)
	in.Reads++
	if k < 63 {
		in.BatchHist[k]++
	} else {
		in.BatchHist[63]++
	}
	if k > in.MaxBatch {
		in.MaxBatch = k
	}
	return off, nil
}

// Close closes the descriptor. A Read parked on it is woken with os.ErrClosed
// only if the descriptor is in non-blocking mode and Fd was never called – the
// condition under which the real os.File can do that.
//
//go:norace
func (f *File) Close() error {
	ssim.Yield("inotify.close")
	if f.closed {
		return &os.PathError{Op: "close", Path: f.name, Err: os.ErrClosed}
	}
	f.closed = true
	f.in.Closed = true
	f.in.Calls = append(f.in.Calls, Call{Step: ssim.S().Steps, Task: ssim.Cur().ID, Kind: "close", Wd: f.fd})
	err := unix.Close(f.fd)
	ReleaseLater(f.in.KeepFD)
	f.in.KeepFD = -1
	return err
}

// Fd returns the descriptor and, like the real one, puts it in blocking mode.
//
//go:norace
func (f *File) Fd() uintptr {
	ssim.Yield("inotify.Fd")
	unix.SetNonblock(f.fd, false)
	f.in.Pollable = false
	return uintptr(f.fd)
}

// Name is os.File.Name.
//
//go:norace
func (f *File) Name() string { return f.name }

// MaskString renders an inotify mask.
//
//go:norace
func MaskString(m uint32) string {
	names := []struct {
		b uint32
		n string
	}{{unix.IN_ACCESS, "ACCESS"}, {unix.IN_MODIFY, "MODIFY"}, {unix.IN_ATTRIB, "ATTRIB"}, {unix.IN_CLOSE_WRITE, "CLOSE_WRITE"},
		{unix.IN_CLOSE_NOWRITE, "CLOSE_NOWRITE"}, {unix.IN_OPEN, "OPEN"}, {unix.IN_MOVED_FROM, "MOVED_FROM"}, {unix.IN_MOVED_TO, "MOVED_TO"},
		{unix.IN_CREATE, "CREATE"}, {unix.IN_DELETE, "DELETE"}, {unix.IN_DELETE_SELF, "DELETE_SELF"}, {unix.IN_MOVE_SELF, "MOVE_SELF"},
		{unix.IN_UNMOUNT, "UNMOUNT"}, {unix.IN_Q_OVERFLOW, "Q_OVERFLOW"}, {unix.IN_IGNORED, "IGNORED"}, {unix.IN_ISDIR, "ISDIR"}}
	out := ""
	for _, x := range names {
		if m&x.b != 0 {
			if out != "" {
				out += "|"
			}
			out += x.n
		}
	}
	if out == "" {
		return fmt.Sprintf("%#x", m)
	}
	return out
}
