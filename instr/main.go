// Command instr copies the fsnotify package from a working tree into a scratch
// module and mechanically rewrites every source of nondeterminism into a
// simulator call (see DESIGN.md §3.1).
//
//	instr -src /repo -dst /dev/shm/x/fsnotify -flavour linux|kqueue -sim /verif/sim
//
// Anything it does not understand makes it exit with status 2.
package main

import (
	"bytes"
	"flag"
	"fmt"
	"go/ast"
	"go/format"
	"go/token"
	"go/types"
	"os"
	"path/filepath"
	"sort"
	"strings"

	"golang.org/x/tools/go/ast/astutil"
	"golang.org/x/tools/go/packages"
)

func die(format string, a ...interface{}) {
	fmt.Fprintf(os.Stderr, "instr: "+format+"\n", a...)
	os.Exit(2)
}

type rw struct {
	fset    *token.FileSet
	info    *types.Info
	flavour string
	native  map[ast.Node]bool // comm statements of selects and their receive expressions
	recv2   map[ast.Node]bool
	need    map[string]bool // simulator packages to import
	tmp     int
	counts  map[string]int
	file    string
}

// selector rewrite tables: package path → symbol → replacement package
var selTables = map[string]map[string]map[string]string{
	"linux": {
		"sync":                  {"Mutex": "ssync", "RWMutex": "ssync", "Once": "ssync", "WaitGroup": "ssync", "Locker": "ssync"},
		"os":                    {"NewFile": "sinot", "File": "sinot"},
		"golang.org/x/sys/unix": {"InotifyInit1": "sinot", "InotifyAddWatch": "sinot", "InotifyRmWatch": "sinot"},
		"time":                  {"Sleep": "ssim", "After": "ssim", "NewTimer": "ssim", "AfterFunc": "ssim", "Timer": "ssim", "Now": "ssim", "Since": "ssim"},
		"runtime":               {"Gosched": "ssim"},
		"sync/atomic":           {"*": "satomic"},
	},
	"kqueue": {
		"sync":                                  {"Mutex": "ssync", "RWMutex": "ssync", "Once": "ssync", "WaitGroup": "ssync", "Locker": "ssync"},
		"os":                                    {"Lstat": "skq", "ReadDir": "skq", "Readlink": "skq", "Stat": "skq"},
		"golang.org/x/sys/unix":                 {"*": "skq"},
		"time":                                  {"Sleep": "ssim", "After": "ssim", "NewTimer": "ssim", "AfterFunc": "ssim", "Timer": "ssim", "Now": "ssim", "Since": "ssim"},
		"runtime":                               {"Gosched": "ssim", "GOOS": "skq"},
		"github.com/fsnotify/fsnotify/internal": {"*": "skq"},
		"sync/atomic":                           {"*": "satomic"},
	},
}

// packages every symbol of which must be in the table (a use of anything else
// would be an un-simulated source of nondeterminism)
var strict = map[string]bool{"sync": true, "sync/atomic": true}

// symbols that would introduce un-simulated nondeterminism
var forbidden = map[string]map[string]bool{
	"time": {"NewTicker": true, "Tick": true},
}

var simPaths = map[string]string{"ssim": "verifsim/ssim", "ssync": "verifsim/ssync", "sinot": "verifsim/sinot", "skq": "verifsim/skq", "satomic": "verifsim/satomic"}

func (r *rw) sim(pkg, name string) ast.Expr {
	r.need[pkg] = true
	return &ast.SelectorExpr{X: ast.NewIdent("verif_" + pkg), Sel: ast.NewIdent(name)}
}

func (r *rw) call(pkg, name string, args ...ast.Expr) *ast.CallExpr {
	return &ast.CallExpr{Fun: r.sim(pkg, name), Args: args}
}

func (r *rw) fresh(prefix string) *ast.Ident {
	r.tmp++
	return ast.NewIdent(fmt.Sprintf("verif_%s%d", prefix, r.tmp))
}

func unparen(e ast.Expr) ast.Expr {
	for {
		p, ok := e.(*ast.ParenExpr)
		if !ok {
			return e
		}
		e = p.X
	}
}

func isRecv(e ast.Expr) (*ast.UnaryExpr, bool) {
	u, ok := unparen(e).(*ast.UnaryExpr)
	if ok && u.Op == token.ARROW {
		return u, true
	}
	return nil, false
}

func define(lhs ast.Expr, rhs ast.Expr) ast.Stmt {
	return &ast.AssignStmt{Lhs: []ast.Expr{lhs}, Tok: token.DEFINE, Rhs: []ast.Expr{rhs}}
}

func (r *rw) pre(c *astutil.Cursor) bool {
	switch n := c.Node().(type) {
	case *ast.SelectStmt:
		for _, cl := range n.Body.List {
			cc := cl.(*ast.CommClause)
			if cc.Comm == nil {
				continue
			}
			r.native[cc.Comm] = true
			switch s := cc.Comm.(type) {
			case *ast.ExprStmt:
				if u, ok := isRecv(s.X); ok {
					r.native[u] = true
				}
			case *ast.AssignStmt:
				if u, ok := isRecv(s.Rhs[0]); ok {
					r.native[u] = true
				}
			}
		}
	case *ast.AssignStmt:
		if len(n.Lhs) == 2 && len(n.Rhs) == 1 {
			if u, ok := isRecv(n.Rhs[0]); ok {
				r.recv2[u] = true
			}
		}
	case *ast.ValueSpec:
		if len(n.Names) == 2 && len(n.Values) == 1 {
			if u, ok := isRecv(n.Values[0]); ok {
				r.recv2[u] = true
			}
		}
	case *ast.LabeledStmt:
		if _, ok := n.Stmt.(*ast.SelectStmt); ok {
			die("%s: labeled select statement is not supported by the rewriter", r.fset.Position(n.Pos()))
		}
	}
	return true
}

func (r *rw) post(c *astutil.Cursor) bool {
	switch n := c.Node().(type) {
	case *ast.SelectorExpr:
		id, ok := n.X.(*ast.Ident)
		if !ok {
			break
		}
		pn, ok := r.info.Uses[id].(*types.PkgName)
		if !ok {
			break
		}
		path := pn.Imported().Path()
		if forbidden[path][n.Sel.Name] {
			die("%s: %s.%s has no simulated counterpart", r.fset.Position(n.Pos()), path, n.Sel.Name)
		}
		tab := selTables[r.flavour][path]
		to, ok := tab[n.Sel.Name]
		if !ok {
			to, ok = tab["*"]
		}
		if !ok {
			if strict[path] {
				die("%s: %s.%s has no simulated counterpart", r.fset.Position(n.Pos()), path, n.Sel.Name)
			}
			break
		}
		name := n.Sel.Name
		if to == "ssim" && name == "Gosched" {
			c.Replace(&ast.FuncLit{Type: &ast.FuncType{Params: &ast.FieldList{}}, Body: &ast.BlockStmt{List: []ast.Stmt{
				&ast.ExprStmt{X: r.call("ssim", "Yield", &ast.BasicLit{Kind: token.STRING, Value: `"gosched"`})}}}})
			r.counts["gosched"]++
			break
		}
		c.Replace(r.sim(to, name))
		r.counts["sel:"+path+"."+name]++

	case *ast.GoStmt:
		// go f(a, b)  =>  { f_ := f; a_ := a; b_ := b; ssim.GoLib(func() { f_(a_, b_) }) }
		var pre []ast.Stmt
		fn := r.fresh("f")
		pre = append(pre, define(fn, n.Call.Fun))
		var args []ast.Expr
		for _, a := range n.Call.Args {
			t := r.fresh("a")
			pre = append(pre, define(t, a))
			args = append(args, t)
		}
		call := &ast.CallExpr{Fun: fn, Args: args, Ellipsis: n.Call.Ellipsis}
		lit := &ast.FuncLit{Type: &ast.FuncType{Params: &ast.FieldList{}}, Body: &ast.BlockStmt{List: []ast.Stmt{&ast.ExprStmt{X: call}}}}
		pre = append(pre, &ast.ExprStmt{X: r.call("ssim", "GoLib", lit)})
		c.Replace(&ast.BlockStmt{List: pre})
		r.counts["go"]++

	case *ast.SendStmt:
		if r.native[n] {
			break
		}
		c.Replace(&ast.ExprStmt{X: r.call("ssim", "Send", n.Chan, n.Value)})
		r.counts["send"]++

	case *ast.UnaryExpr:
		if n.Op != token.ARROW || r.native[n] {
			break
		}
		if r.recv2[n] {
			c.Replace(r.call("ssim", "Recv2", n.X))
		} else {
			c.Replace(r.call("ssim", "Recv", n.X))
		}
		r.counts["recv"]++

	case *ast.CallExpr:
		id, ok := n.Fun.(*ast.Ident)
		if ok && id.Name == "close" && len(n.Args) == 1 {
			if _, isBuiltin := r.info.Uses[id].(*types.Builtin); isBuiltin {
				c.Replace(r.call("ssim", "Close", n.Args[0]))
				r.counts["close"]++
			}
		}

	case *ast.SelectStmt:
		c.Replace(r.rewriteSelect(n))
		r.counts["select"]++

	case *ast.RangeStmt:
		t := r.info.TypeOf(n.X)
		if t == nil {
			die("%s: no type for range expression", r.fset.Position(n.Pos()))
		}
		switch t.Underlying().(type) {
		case *types.Map:
			if rep := r.rewriteMapRange(n); rep != nil {
				c.Replace(rep)
				r.counts["maprange"]++
			}
		case *types.Chan:
			c.Replace(r.rewriteChanRange(n))
			r.counts["chanrange"]++
		}
	}
	return true
}

func (r *rw) rewriteSelect(n *ast.SelectStmt) ast.Stmt {
	var pre []ast.Stmt
	sel, idx := r.fresh("sel"), r.fresh("i")
	var caseExprs []ast.Expr
	hasDefault := "false"
	var clauses []ast.Stmt
	k := 0
	for _, cl := range n.Body.List {
		cc := cl.(*ast.CommClause)
		if cc.Comm == nil {
			hasDefault = "true"
			clauses = append(clauses, &ast.CaseClause{List: nil, Body: cc.Body})
			continue
		}
		ct := r.fresh("c")
		var nativeOp ast.Stmt
		switch s := cc.Comm.(type) {
		case *ast.SendStmt:
			vt := r.fresh("v")
			pre = append(pre, define(ct, s.Chan), define(vt, s.Value))
			caseExprs = append(caseExprs, r.call("ssim", "Sd", ct))
			nativeOp = &ast.SendStmt{Chan: ct, Value: vt}
		case *ast.ExprStmt:
			u, ok := isRecv(s.X)
			if !ok {
				die("%s: unsupported select case", r.fset.Position(s.Pos()))
			}
			pre = append(pre, define(ct, u.X))
			caseExprs = append(caseExprs, r.call("ssim", "R", ct))
			nativeOp = &ast.ExprStmt{X: &ast.UnaryExpr{Op: token.ARROW, X: ct}}
		case *ast.AssignStmt:
			u, ok := isRecv(s.Rhs[0])
			if !ok {
				die("%s: unsupported select case", r.fset.Position(s.Pos()))
			}
			pre = append(pre, define(ct, u.X))
			caseExprs = append(caseExprs, r.call("ssim", "R", ct))
			nativeOp = &ast.AssignStmt{Lhs: s.Lhs, Tok: s.Tok, Rhs: []ast.Expr{&ast.UnaryExpr{Op: token.ARROW, X: ct}}}
		default:
			die("%s: unsupported select case", r.fset.Position(cc.Pos()))
		}
		body := []ast.Stmt{nativeOp, &ast.ExprStmt{X: &ast.CallExpr{Fun: &ast.SelectorExpr{X: sel, Sel: ast.NewIdent("Done")}}}}
		body = append(body, cc.Body...)
		clauses = append(clauses, &ast.CaseClause{List: []ast.Expr{&ast.BasicLit{Kind: token.INT, Value: fmt.Sprint(k)}}, Body: body})
		k++
	}
	if hasDefault == "false" {
		clauses = append(clauses, &ast.CaseClause{List: nil, Body: []ast.Stmt{&ast.ExprStmt{X: &ast.CallExpr{Fun: ast.NewIdent("panic"),
			Args: []ast.Expr{&ast.BasicLit{Kind: token.STRING, Value: `"verif: select index out of range"`}}}}}})
	}
	args := append([]ast.Expr{ast.NewIdent(hasDefault)}, caseExprs...)
	pre = append(pre,
		&ast.AssignStmt{Lhs: []ast.Expr{sel, idx}, Tok: token.DEFINE, Rhs: []ast.Expr{r.call("ssim", "Select", args...)}},
		&ast.AssignStmt{Lhs: []ast.Expr{ast.NewIdent("_")}, Tok: token.ASSIGN, Rhs: []ast.Expr{sel}},
		&ast.SwitchStmt{Tag: idx, Body: &ast.BlockStmt{List: clauses}})
	return &ast.BlockStmt{List: pre}
}

func isBlank(e ast.Expr) bool {
	id, ok := e.(*ast.Ident)
	return e == nil || (ok && id.Name == "_")
}

func (r *rw) rewriteMapRange(n *ast.RangeStmt) ast.Stmt {
	if isBlank(n.Key) && isBlank(n.Value) {
		return nil // order cannot be observed
	}
	m := r.fresh("m")
	kt := r.fresh("k")
	ok := r.fresh("ok")
	var prelude []ast.Stmt
	valTarget := ast.Expr(ast.NewIdent("_"))
	if !isBlank(n.Value) {
		valTarget = n.Value
	}
	// v, ok := m[k]; if !ok { continue }
	tok := n.Tok
	if tok == token.ILLEGAL {
		tok = token.DEFINE
	}
	if tok == token.DEFINE {
		prelude = append(prelude, &ast.AssignStmt{Lhs: []ast.Expr{valTarget, ok}, Tok: token.DEFINE,
			Rhs: []ast.Expr{&ast.IndexExpr{X: m, Index: kt}}})
		if !isBlank(n.Key) {
			prelude = append(prelude, define(n.Key, kt))
			prelude = append(prelude, &ast.AssignStmt{Lhs: []ast.Expr{ast.NewIdent("_")}, Tok: token.ASSIGN, Rhs: []ast.Expr{n.Key}})
		}
	} else {
		okDecl := &ast.DeclStmt{Decl: &ast.GenDecl{Tok: token.VAR, Specs: []ast.Spec{&ast.ValueSpec{Names: []*ast.Ident{ok}, Type: ast.NewIdent("bool")}}}}
		prelude = append(prelude, okDecl, &ast.AssignStmt{Lhs: []ast.Expr{valTarget, ok}, Tok: token.ASSIGN,
			Rhs: []ast.Expr{&ast.IndexExpr{X: m, Index: kt}}})
		if !isBlank(n.Key) {
			prelude = append(prelude, &ast.AssignStmt{Lhs: []ast.Expr{n.Key}, Tok: token.ASSIGN, Rhs: []ast.Expr{kt}})
		}
	}
	prelude = append(prelude, &ast.IfStmt{Cond: &ast.UnaryExpr{Op: token.NOT, X: ok}, Body: &ast.BlockStmt{List: []ast.Stmt{&ast.BranchStmt{Tok: token.CONTINUE}}}})
	// the presence check must come before the key/value become visible to the body
	// (order: lookup, check, then body) – reorder so the check directly follows the lookup
	body := &ast.BlockStmt{List: append(prelude, n.Body.List...)}
	loop := &ast.RangeStmt{Key: ast.NewIdent("_"), Value: kt, Tok: token.DEFINE, X: r.call("ssim", "MapKeys", m), Body: body}
	return &ast.BlockStmt{List: []ast.Stmt{define(m, n.X), loop}}
}

func (r *rw) rewriteChanRange(n *ast.RangeStmt) ast.Stmt {
	ch := r.fresh("ch")
	ok := r.fresh("ok")
	var prelude []ast.Stmt
	target := ast.Expr(ast.NewIdent("_"))
	tok := token.DEFINE
	if !isBlank(n.Key) {
		target = n.Key
		if n.Tok == token.ASSIGN {
			tok = token.ASSIGN
		}
	}
	if tok == token.ASSIGN {
		okDecl := &ast.DeclStmt{Decl: &ast.GenDecl{Tok: token.VAR, Specs: []ast.Spec{&ast.ValueSpec{Names: []*ast.Ident{ok}, Type: ast.NewIdent("bool")}}}}
		prelude = append(prelude, okDecl)
	}
	prelude = append(prelude, &ast.AssignStmt{Lhs: []ast.Expr{target, ok}, Tok: tok, Rhs: []ast.Expr{r.call("ssim", "Recv2", ch)}},
		&ast.IfStmt{Cond: &ast.UnaryExpr{Op: token.NOT, X: ok}, Body: &ast.BlockStmt{List: []ast.Stmt{&ast.BranchStmt{Tok: token.BREAK}}}})
	body := &ast.BlockStmt{List: append(prelude, n.Body.List...)}
	return &ast.BlockStmt{List: []ast.Stmt{define(ch, n.X), &ast.ForStmt{Body: body}}}
}

func main() {
	src := flag.String("src", "/repo", "fsnotify working tree")
	dst := flag.String("dst", "", "output directory (the scratch module root)")
	flavour := flag.String("flavour", "linux", "linux or kqueue")
	simDir := flag.String("sim", "/verif/sim", "directory of the verifsim module")
	flag.Parse()
	if *dst == "" {
		die("-dst is required")
	}
	goos := "linux"
	if *flavour == "kqueue" {
		goos = "freebsd"
	}
	cfg := &packages.Config{
		Mode: packages.NeedName | packages.NeedFiles | packages.NeedCompiledGoFiles | packages.NeedSyntax | packages.NeedTypes | packages.NeedTypesInfo | packages.NeedImports | packages.NeedDeps,
		Dir:  *src,
		Env:  append(os.Environ(), "GOOS="+goos, "GOARCH=amd64", "CGO_ENABLED=0", "GOFLAGS=-mod=mod"),
	}
	pkgs, err := packages.Load(cfg, ".")
	if err != nil {
		die("load: %v", err)
	}
	if len(pkgs) != 1 {
		die("expected one package, got %d", len(pkgs))
	}
	pkg := pkgs[0]
	if len(pkg.Errors) > 0 {
		for _, e := range pkg.Errors {
			fmt.Fprintln(os.Stderr, e)
		}
		die("the package does not type-check for GOOS=%s", goos)
	}
	if err := os.MkdirAll(*dst, 0o755); err != nil {
		die("%v", err)
	}
	total := map[string]int{}
	for i, f := range pkg.Syntax {
		name := filepath.Base(pkg.CompiledGoFiles[i])
		r := &rw{fset: pkg.Fset, info: pkg.TypesInfo, flavour: *flavour, native: map[ast.Node]bool{}, recv2: map[ast.Node]bool{},
			need: map[string]bool{}, counts: total, file: name}
		f.Comments = nil
		f.Doc = nil
		out := astutil.Apply(f, r.pre, r.post).(*ast.File)
		// drop doc comments that still hang off declarations
		ast.Inspect(out, func(n ast.Node) bool {
			switch d := n.(type) {
			case *ast.FuncDecl:
				d.Doc = nil
			case *ast.GenDecl:
				d.Doc = nil
			case *ast.Field:
				d.Doc, d.Comment = nil, nil
			case *ast.ValueSpec:
				d.Doc, d.Comment = nil, nil
			case *ast.TypeSpec:
				d.Doc, d.Comment = nil, nil
			case *ast.ImportSpec:
				d.Doc, d.Comment = nil, nil
			}
			return true
		})
		var pk []string
		for p := range r.need {
			pk = append(pk, p)
		}
		sort.Strings(pk)
		for _, p := range pk {
			astutil.AddNamedImport(pkg.Fset, out, "verif_"+p, simPaths[p])
		}
		// remove imports that are no longer used
		for _, imp := range append([]*ast.ImportSpec(nil), out.Imports...) {
			path := strings.Trim(imp.Path.Value, `"`)
			if imp.Name != nil && (imp.Name.Name == "_" || imp.Name.Name == ".") {
				continue
			}
			if !astutil.UsesImport(out, path) {
				if imp.Name != nil {
					astutil.DeleteNamedImport(pkg.Fset, out, imp.Name.Name, path)
				} else {
					astutil.DeleteImport(pkg.Fset, out, path)
				}
			}
		}
		var buf bytes.Buffer
		if err := format.Node(&buf, pkg.Fset, out); err != nil {
			die("print %s: %v", name, err)
		}
		if err := os.WriteFile(filepath.Join(*dst, name), buf.Bytes(), 0o644); err != nil {
			die("%v", err)
		}
	}
	// go.mod of the scratch module
	mod := fmt.Sprintf("module github.com/fsnotify/fsnotify\n\ngo 1.21\n\nrequire golang.org/x/sys v0.13.0\n\nrequire verifsim v0.0.0\n\nreplace verifsim => %s\n", *simDir)
	os.WriteFile(filepath.Join(*dst, "go.mod"), []byte(mod), 0o644)
	if b, err := os.ReadFile(filepath.Join(*src, "go.sum")); err == nil {
		os.WriteFile(filepath.Join(*dst, "go.sum"), b, 0o644)
	}
	// residual scan: nothing nondeterministic may be left
	var keys []string
	for k := range total {
		keys = append(keys, k)
	}
	sort.Strings(keys)
	for _, k := range keys {
		fmt.Printf("rewrote %-50s %d\n", k, total[k])
	}
}
