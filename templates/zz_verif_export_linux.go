package fsnotify

// Added to the scratch copy by the verification build (never to /repo): what
// the repository's own tests reach from inside the package.

const (
	VerifOpen       = xUnportableOpen
	VerifRead       = xUnportableRead
	VerifCloseWrite = xUnportableCloseWrite
	VerifCloseRead  = xUnportableCloseRead
)

func VerifSetRecurse(b bool) { enableRecurse = b }

func VerifAddWith(w *Watcher, path string, ops Op, noFollow bool) error {
	var opts []addOpt
	if ops != 0 {
		opts = append(opts, withOps(ops))
	}
	if noFollow {
		opts = append(opts, withNoFollow())
	}
	return w.AddWith(path, opts...)
}

func VerifBackend(w *Watcher) interface{} { return w.b }
