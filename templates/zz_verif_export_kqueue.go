package fsnotify

// Added to the scratch copy by the verification build (never to /repo).

func VerifBackend(w *Watcher) interface{} { return w.b }
