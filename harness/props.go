package main

import (
	"os"
	"sort"
	"strings"
)

var (
	scriptNames []string
	scriptTexts map[string]string
)

// Which violation kinds each property's check reports. A run is evaluated with
// every oracle; kinds outside the property under check are counted as
// out_of_scope in the evidence and not reported by this check.
var claims = map[string][]string{
	"C01":      {"lost-event", "overflow-not-reported", "reader-stuck", "panic"},
	"C02":      {"phantom-event", "housekeeping-event", "panic"},
	"C03":      {"order", "panic"},
	"C04":      {"watchlist-mismatch", "wrong-error", "panic", "history-not-explainable", "wrong-result"},
	"C05":      {"blocked-control-op", "close-not-returning", "panic"},
	"C06":      {"channel-not-closed", "post-close-result", "panic", "close-not-returning", "event-after-close", "wrong-result"},
	"C07":      {"data-race", "panic", "deadlock", "blocked-control-op", "close-not-returning", "history-not-explainable", "watchlist-mismatch", "wrong-error", "not-linearizable", "wrong-result"},
	"C08":      {"name-mismatch", "panic"},
	"C09":      {"watchlist-mismatch", "wrong-error", "lost-event", "phantom-event", "panic", "wrong-result"},
	"C10":      {"spurious-error", "overflow-not-reported", "dead-after-overflow", "reader-stuck", "panic"},
	"C11":      {"renamed-from-mismatch", "panic"},
	"C12":      {"kernel-mark-orphan", "kernel-mark-missing", "table-size", "foreign-watch", "panic"},
	"C13":      {"fd-leak", "task-leak", "foreign-watch", "panic"},
	"C14":      {"cap-mismatch", "stream-divergence", "lost-event", "phantom-event", "order", "foreign-watch", "absorb-failed", "reader-stuck", "panic"},
	"C17":      {"kq-fd-leak", "kq-table-leak", "kq-internal-path-listed", "task-leak", "panic", "deadlock"},
	"C18":      {"kq-event-mismatch", "kq-duplicate-create", "kq-missing-create", "kq-event-order", "panic", "script-mismatch"},
	"KQSCRIPT": {"script-mismatch", "panic", "deadlock"},
	"C19":      {"lost-event", "phantom-event", "name-mismatch", "order", "watchlist-mismatch", "renamed-from-mismatch", "panic"},
}

func claimsOf(p string) map[string]bool {
	m := map[string]bool{}
	for _, k := range claims[p] {
		m[k] = true
	}
	if extra := os.Getenv("VERIF_DEBUG_CLAIM"); extra != "" {
		// debugging aid: additionally report the listed kinds (never set by registered commands)
		for _, k := range strings.Split(extra, ",") {
			m[k] = true
		}
	}
	return m
}

// generate produces the scenario of run i for a property.
func generate(prop, tier string, seed uint64, run int) *Scenario {
	allShapes := []int{0, 0, 1, 1, 2, 3, 4, 6}
	pick := int(seed>>7) % 100
	if os.Getenv("VERIF_DEBUG_FAMILY") == "reuse" {
		return genReuse(prop, seed, run)
	}
	if (prop == "C01" || prop == "C02" || prop == "C08") && pick >= 96 {
		return genDeep(prop, seed, run)
	}
	switch prop {
	case "C01":
		if pick >= 88 {
			// watched paths that are replaced, renamed and deleted and then added again:
			// events of the re-added path (seed C01-i)
			return genLifecycle(prop, seed, run, tier, 0, 0.1)
		}
		return genMix(prop, seed, run, mixOpts{lagfree: 0.3, apiChurn: 0.12, spellings: pick < 25, shapes: allShapes, overflow: 0.12, maxOps: 36, watchFiles: 0.3, worldTasks: 3, withOps: 0.0, burst: 0.04, bigBurst: tier == "thorough"})
	case "C02":
		if pick >= 88 {
			// recursive watches: a reported path must be the entry's true path
			// (seeds C02-f, C02-h break C02 for recursive watches only)
			return genRecurse(prop, seed, run, tier)
		}
		return genMix(prop, seed, run, mixOpts{lagfree: 0.25, apiChurn: 0.3, spellings: pick < 25, shapes: allShapes, overflow: 0.05, maxOps: 36, watchFiles: 0.4, worldTasks: 2, twoClients: 0.35})
	case "C03":
		return genMix(prop, seed, run, mixOpts{lagfree: 0.2, apiChurn: 0.05, shapes: []int{0, 1}, maxOps: 40, watchFiles: 0.4, worldTasks: 1, burst: 0.04, overflow: 0.15})
	case "C08":
		if pick >= 88 {
			// recursive watches: names below a renamed sub-directory and its siblings (seed C08-h)
			return genRecurse(prop, seed, run, tier)
		}
		return genMix(prop, seed, run, mixOpts{lagfree: 0.3, apiChurn: 0.15, spellings: true, shapes: []int{1, 1, 1, 2, 3, 4, 0, 6}, maxOps: 30, watchFiles: 0.4, worldTasks: 2})
	case "C04":
		// thorough tier: two of every three runs walk through the enumeration
		// (813 615 sequences) until it is exhausted, the third samples
		if tier == "thorough" && run%3 != 2 && (run/3)*2+run%3 < enumTotal() {
			return genAPIEnum(prop, seed, run, (run/3)*2+run%3)
		}
		if pick < 70 {
			return genAPI(prop, seed, run, tier)
		}
		if pick < 80 {
			// watched paths that are renamed and deleted, with a kernel queue that overflows now and then
			return genLifecycle(prop, seed, run, tier, 0, 0.3)
		}
		return genMix(prop, seed, run, mixOpts{lagfree: 0.5, apiChurn: 0.5, spellings: true, shapes: []int{0, 1}, maxOps: 24, watchFiles: 0.5, worldTasks: 1, faultAdd: 0.3, overflow: 0.2})
	case "C05":
		return genPending(prop, seed, run, tier)
	case "C06":
		return genClose(prop, seed, run, tier)
	case "C13":
		if pick >= 85 {
			return genReuse(prop, seed, run)
		}
		if pick >= 78 {
			// recursive watches: a reader that gives up on its own, then Close (seed C13-h)
			return genRecurse(prop, seed, run, tier)
		}
		if pick < 20 {
			return genChurn(prop, seed, run, tier, tier == "thorough" && pick < 1)
		}
		return genClose(prop, seed, run, tier)
	case "C07":
		return genConc(prop, seed, run, tier)
	case "C09":
		if pick >= 90 {
			// watched files next to their watched parent under all kinds of spellings ("." and bare names among them)
			return genMix(prop, seed, run, mixOpts{lagfree: 0.5, apiChurn: 0.2, spellings: true, shapes: []int{0, 1}, maxOps: 24, watchFiles: 0.7, worldTasks: 1})
		}
		return genLifecycle(prop, seed, run, tier, 0, 0.12)
	case "C10":
		if pick >= 94 {
			// recursive watches: directories created, renamed and removed faster than
			// the reader registers them (found the ENOENT of the recursive branch)
			return genRecurse(prop, seed, run, tier)
		}
		if pick < 70 {
			return genLifecycle(prop, seed, run, tier, 0, 0.25)
		}
		return genMix(prop, seed, run, mixOpts{lagfree: 0.1, apiChurn: 0.15, shapes: []int{0, 1}, overflow: 0.5, maxOps: 40, watchFiles: 0.5, worldTasks: 2})
	case "C11":
		return genRename(prop, seed, run, tier)
	case "C12":
		if pick >= 92 {
			return genReuse(prop, seed, run)
		}
		if pick >= 86 {
			// watches that stand for many kernel watches (found 070918a)
			return genRecurse(prop, seed, run, tier)
		}
		if pick < 60 {
			c := 0
			if tier == "thorough" && pick < 5 {
				c = 50
			}
			return genLifecycle(prop, seed, run, tier, c, 0)
		}
		return genAPI(prop, seed, run, tier)
	case "C14":
		if pick >= 75 {
			return genReuse(prop, seed, run)
		}
		if pick < 10 {
			return genCreate(prop, seed, run)
		}
		return genMulti(prop, seed, run, tier)
	case "C19":
		return genRecurse(prop, seed, run, tier)
	case "C17":
		return genKqFD(prop, seed, run, tier)
	case "C18":
		return genKqDir(prop, seed, run, tier)
	case "KQSCRIPT":
		if scriptNames == nil {
			scriptTexts = loadScripts(os.Getenv("VERIF_REPO_DIR"))
			for n := range scriptTexts {
				scriptNames = append(scriptNames, n)
			}
			sort.Strings(scriptNames)
		}
		if run >= len(scriptNames) {
			return nil
		}
		return genKqScript(scriptNames, scriptTexts, run)
	}
	return nil
}
