package main

// Which violation kinds each property's check reports. A run is evaluated with
// every oracle; kinds outside the property under check are counted as
// out_of_scope in the evidence and not reported by this check.
var claims = map[string][]string{
	"C01": {"lost-event", "overflow-not-reported"},
	"C02": {"phantom-event", "housekeeping-event"},
	"C03": {"order"},
	"C04": {"watchlist-mismatch", "wrong-error", "panic", "history-not-explainable"},
	"C05": {"blocked-control-op", "close-not-returning"},
	"C06": {"channel-not-closed", "post-close-result", "panic", "close-not-returning", "event-after-close"},
	"C07": {"data-race", "panic", "deadlock", "blocked-control-op", "close-not-returning", "history-not-explainable", "watchlist-mismatch", "wrong-error", "not-linearizable"},
	"C08": {"name-mismatch"},
	"C09": {"watchlist-mismatch", "wrong-error", "lost-event", "phantom-event"},
	"C10": {"spurious-error", "overflow-not-reported", "dead-after-overflow"},
	"C11": {"renamed-from-mismatch"},
	"C12": {"kernel-mark-orphan", "kernel-mark-missing", "table-size"},
	"C13": {"fd-leak", "task-leak"},
	"C14": {"cap-mismatch", "stream-divergence", "lost-event", "phantom-event", "order"},
	"C19": {"lost-event", "phantom-event", "name-mismatch", "order", "watchlist-mismatch", "renamed-from-mismatch"},
}

func claimsOf(p string) map[string]bool {
	m := map[string]bool{}
	for _, k := range claims[p] {
		m[k] = true
	}
	return m
}

// generate produces the scenario of run i for a property.
func generate(prop, tier string, seed uint64, run int) *Scenario {
	allShapes := []int{0, 0, 1, 1, 2, 3, 4}
	switch prop {
	default:
		return genMix(prop, seed, run, mixOpts{lagfree: 0.3, apiChurn: 0.12, shapes: allShapes, overflow: 0.1, maxOps: 30, watchFiles: 0.3, worldTasks: 2})
	}
}
