//go:build !kq

package main

import (
	"fmt"
	"os"
	"path/filepath"
	"sort"
	"strconv"
	"strings"

	"golang.org/x/sys/unix"
	"verifsim/sinot"
	"verifsim/ssim"
)

// kqState is unused in the inotify flavour.
type kqState struct{}

func (x *Exec) nInst() int { return len(x.sim.Inst) }

// lastInst: the newest instance made by the current task (Watchers may be created concurrently).
func (x *Exec) lastInst() *sinot.Instance {
	me := ssim.Cur().ID
	for i := len(x.sim.Inst) - 1; i >= 0; i-- {
		if x.sim.Inst[i].Creator == me {
			return x.sim.Inst[i]
		}
	}
	return x.sim.Inst[len(x.sim.Inst)-1]
}

func (x *Exec) stopFaults() { x.sim.Cfg.FaultAdd, x.sim.Cfg.FaultInit, x.sim.Cfg.FaultRead = 0, 0, 0 }

// world performs one filesystem operation. One real syscall per simulator step
// (except where noted), followed by shadow tracking of new inodes.
// lp maps a path below the deep directory (possibly longer than PATH_MAX) to
// an equivalent short one through the descriptor the harness holds on it.
func (x *Exec) lp(p string) string {
	if x.deepPrefix != "" && strings.HasPrefix(p, x.deepPrefix+"/") {
		return fmt.Sprintf("/proc/self/fd/%d/%s", x.deepFD, p[len(x.deepPrefix)+1:])
	}
	return p
}

// mkdirDeep builds, below the working directory, a chain of directories whose
// absolute path is (about) n bytes long, one mkdirat / openat per component.
func (x *Exec) mkdirDeep(n int) error {
	cur, err := unix.Open(".", unix.O_PATH|unix.O_DIRECTORY, 0)
	if err != nil {
		return err
	}
	rel := ""
	for i := 0; len(x.root)+1+len(rel) < n; i++ {
		room := n - (len(x.root) + 1 + len(rel)) - 1
		if rel == "" {
			room++
		}
		if room > 200 {
			room = 200
		}
		if room < 1 {
			break
		}
		comp := fmt.Sprintf("p%d", i)
		for len(comp) < room {
			comp += "_"
		}
		comp = comp[:room]
		if err := unix.Mkdirat(cur, comp, 0o755); err != nil {
			unix.Close(cur)
			return err
		}
		next, err := unix.Openat(cur, comp, unix.O_PATH|unix.O_DIRECTORY, 0)
		unix.Close(cur)
		if err != nil {
			return err
		}
		cur = next
		if rel == "" {
			rel = comp
		} else {
			rel += "/" + comp
		}
	}
	x.deepPrefix, x.deepFD = rel, cur
	x.fds[-77] = cur // closed with the other descriptors of the world at the end of the run
	x.sim.Track(fmt.Sprintf("/proc/self/fd/%d/.", cur))
	return nil
}

func (x *Exec) world(task string, op Op) {
	ssim.Yield("world")
	var err error
	orig := op
	op.P, op.P2 = x.lp(op.P), x.lp(op.P2)
	switch op.K {
	case OpDeepMk:
		err = x.mkdirDeep(op.N)
	case OpCreate:
		var fd int
		fd, err = unix.Open(op.P, unix.O_CREAT|unix.O_WRONLY|unix.O_EXCL, 0o644)
		if err == nil {
			x.sim.Track(op.P)
			unix.Close(fd)
		}
	case OpWrite:
		var fd int
		fd, err = unix.Open(op.P, unix.O_WRONLY|unix.O_APPEND, 0)
		if err == nil {
			n := op.N
			if n <= 0 {
				n = 1
			}
			_, err = unix.Write(fd, make([]byte, n))
			unix.Close(fd)
		}
	case OpTruncate:
		err = unix.Truncate(op.P, int64(op.N))
	case OpChmod:
		m := op.N
		if m == 0 {
			m = 0o600
		}
		m &= 0o7777 // (bit 0o100000 marks an explicit mode, e.g. chmod 0)
		err = unix.Chmod(op.P, uint32(m))
	case OpUnlink:
		x.noteRemoval(op.P)
		err = unix.Unlink(op.P)
	case OpMkdir:
		err = unix.Mkdir(op.P, 0o755)
		if err == nil {
			x.sim.Track(op.P)
		}
	case OpRmdir:
		x.noteRemoval(op.P)
		err = unix.Rmdir(op.P)
	case OpRename:
		x.noteRemoval(op.P2)
		err = unix.Rename(op.P, op.P2)
	case OpLink:
		err = unix.Link(op.P, op.P2)
	case OpSymlink:
		err = unix.Symlink(op.P2, op.P)
		if err == nil {
			x.sim.Track(op.P)
		}
	case OpMkfifo:
		err = unix.Mkfifo(op.P, 0o644)
		if err == nil {
			x.sim.Track(op.P)
		}
	case OpOpen, OpOpenRO:
		var fd int
		fl := unix.O_RDWR
		if op.K == OpOpenRO {
			fl = unix.O_RDONLY
		}
		fd, err = unix.Open(op.P, fl, 0)
		if err == nil {
			if old, ok := x.fds[op.N]; ok {
				unix.Close(old)
			}
			x.fds[op.N] = fd
		}
	case OpWriteFD:
		if fd, ok := x.fds[op.N]; ok {
			_, err = unix.Write(fd, []byte("x"))
		}
	case OpReadFD:
		if fd, ok := x.fds[op.N]; ok {
			var b [8]byte
			_, err = unix.Pread(fd, b[:], 0)
		}
	case OpCloseFD:
		if fd, ok := x.fds[op.N]; ok {
			err = unix.Close(fd)
			delete(x.fds, op.N)
		}
	case OpRmRF:
		x.rmrf(op.P)
	case OpLeaveRm:
		if err = os.Chdir(".."); err == nil {
			x.rmrf(op.P)
		}
	case OpYield:
	}
	x.sim.Dirty = true
	x.sim.WorldTask = ssim.Cur().ID
	wr := WorldRec{Step: step(), Task: task, Op: orig}
	if err != nil {
		wr.Err = classify(err)
	}
	x.WorldLog = append(x.WorldLog, wr)
}

// noteRemoval records which inode is about to lose the directory entry p.
func (x *Exec) noteRemoval(p string) {
	var st unix.Stat_t
	if unix.Lstat(p, &st) == nil {
		x.Removed = append(x.Removed, RemovedRec{Step: step(), Ino: st.Ino})
	}
}

func (x *Exec) rmrf(p string) {
	ents, err := os.ReadDir(p)
	if err == nil {
		for _, e := range ents {
			c := p + "/" + e.Name()
			if e.IsDir() {
				x.rmrf(c)
			} else {
				x.noteRemoval(c)
				unix.Unlink(c)
				x.sim.Dirty = true
				ssim.Yield("world")
			}
		}
		x.noteRemoval(p)
		unix.Rmdir(p)
	} else {
		x.noteRemoval(p)
		unix.Unlink(p)
	}
	x.sim.Dirty = true
	ssim.Yield("world")
}

func (x *Exec) snapshot(label string) {
	for _, wr := range x.W {
		if wr.W == nil || wr.Inst == nil {
			continue
		}
		s := Snapshot{Step: step(), Label: label, QueueLen: len(wr.Inst.Queue)}
		if !wr.Inst.Closed {
			s.Marks, s.MarksOK = readMarks(wr.Inst.FD)
			s.FDOpen = true
		} else {
			// the number may have been reused by a later instance; only report
			// it open if no other live instance owns it
			owned := false
			for _, o := range x.sim.Inst {
				if o != wr.Inst && !o.Closed && o.FD == wr.Inst.FD {
					owned = true
				}
			}
			if !owned {
				if l, err := os.Readlink(fmt.Sprintf("/proc/self/fd/%d", wr.Inst.FD)); err == nil && strings.Contains(l, "anon_inode:inotify") {
					s.FDOpen = true
				}
			}
		}
		if !raceEnabled {
			s.MapSizes = mapSizes(verifBackend(wr.W))
		}
		// what this watcher's reader goroutine is parked on (readers are created in watcher order)
		ri := 0
		for _, t := range x.S.Tasks() {
			if t.Role == "reader" {
				if ri == wr.ReaderIdx {
					s.Reader = t.Pending()
				}
				ri++
			}
		}
		wr.Snaps = append(wr.Snaps, s)
	}
}

func readMarks(fd int) ([]Mark, bool) {
	b, err := os.ReadFile(fmt.Sprintf("/proc/self/fdinfo/%d", fd))
	if err != nil {
		return nil, false
	}
	var out []Mark
	for _, l := range strings.Split(string(b), "\n") {
		if !strings.HasPrefix(l, "inotify ") {
			continue
		}
		var m Mark
		for _, f := range strings.Fields(l)[1:] {
			kv := strings.SplitN(f, ":", 2)
			if len(kv) != 2 {
				continue
			}
			v, _ := strconv.ParseUint(kv[1], 16, 64)
			switch kv[0] {
			case "wd":
				m.Wd = int(v)
			case "ino":
				m.Ino = v
			case "mask":
				m.Mask = uint32(v)
			}
		}
		out = append(out, m)
	}
	sort.Slice(out, func(i, j int) bool { return out[i].Wd < out[j].Wd })
	return out, true
}

func countFDs() int {
	ents, err := os.ReadDir("/proc/self/fd")
	if err != nil {
		return -1
	}
	n := 0
	for _, e := range ents {
		if fd, _ := strconv.Atoi(e.Name()); fd >= 900 {
			continue // the recycled shadow and the kept duplicates awaiting asynchronous release
		}
		l, err := os.Readlink("/proc/self/fd/" + e.Name())
		if err == nil && strings.Contains(l, "anon_inode:inotify") {
			n++
		}
	}
	return n
}

// fdTable lists the low descriptors of the process with what they refer to.
func fdTable() map[int]string {
	out := map[int]string{}
	ents, err := os.ReadDir("/proc/self/fd")
	if err != nil {
		return out
	}
	for _, e := range ents {
		fd, _ := strconv.Atoi(e.Name())
		if fd >= 900 {
			continue
		}
		l, err := os.Readlink("/proc/self/fd/" + e.Name())
		if err == nil {
			out[fd] = l
		}
	}
	return out
}

// execute runs the scenario under the given chooser.
func execute(sc *Scenario, ch ssim.Chooser, keepTrace bool) *Exec {
	x := &Exec{sc: sc, fds: map[int]int{}}
	base := os.Getenv("VERIF_SCRATCH")
	if base == "" {
		base = "/dev/shm"
	}
	root, err := os.MkdirTemp(base, "vsim-")
	if err != nil {
		ssim.Fatal("mkdtemp: %v", err)
	}
	root, _ = filepath.EvalSymlinks(root)
	x.root = root
	if err := os.Chdir(root); err != nil {
		ssim.Fatal("chdir: %v", err)
	}
	defer func() {
		os.Chdir("/")
		os.RemoveAll(root)
	}()
	if sc.Cfg.Cwd != "" {
		x.root = root + "/" + sc.Cfg.Cwd
		if err := os.Mkdir(x.root, 0o755); err != nil {
			ssim.Fatal("mkdir cwd: %v", err)
		}
		if err := os.Chdir(x.root); err != nil {
			ssim.Fatal("chdir cwd: %v", err)
		}
	}
	verifSetRecurse(sc.Cfg.Recurse)
	x.FDsBefore = countFDs()
	fdsBefore := fdTable()
	x.sim = sinot.New(sinot.Config{QueueLimit: sc.Cfg.QueueLimit, Coalesce: sc.Cfg.Coalesce, BatchMode: sc.Cfg.BatchMode,
		FaultAdd: sc.Cfg.FaultAdd, FaultInit: sc.Cfg.FaultInit, FaultRead: sc.Cfg.FaultRead, MaxAddFault: 3, Reorder: sc.Cfg.Reorder})
	if err := x.sim.NewShadow(); err != nil {
		fmt.Fprintf(os.Stderr, "ENVIRONMENT: cannot create the shadow inotify instance: %v\n", err)
		os.Exit(2)
	}
	x.sim.Track(".")
	max := sc.Cfg.MaxSteps
	if max <= 0 {
		max = 20000
	}
	pol := ssim.Policy{Kind: sc.Cfg.Policy, SwitchProb: sc.Cfg.SwitchProb, Weights: sc.Cfg.Weights, PCTDepth: sc.Cfg.PCTDepth}
	x.S = ssim.New(ch, max, pol)
	x.S.KeepTrace = keepTrace
	x.S.BeforeDecide = func() { x.sim.Drain(x.S.Steps) }
	x.S.Run(x.mainTask)
	// release whatever is still open
	for _, fd := range x.fds {
		unix.Close(fd)
	}
	for _, in := range x.sim.Inst {
		if !in.Closed {
			unix.Close(in.FD)
		}
		sinot.ReleaseLater(in.KeepFD)
		in.KeepFD = -1
	}
	x.sim.CloseShadow()
	x.FDsAfter = countFDs()
	for fd, l := range fdTable() {
		if _, was := fdsBefore[fd]; was || strings.Contains(l, "eventpoll") || strings.Contains(l, "eventfd") || strings.HasPrefix(l, "/proc/") && strings.HasSuffix(l, "/fd") {
			continue // there before; the Go runtime's poller; the listing itself
		}
		x.FDLeaks = append(x.FDLeaks, fmt.Sprintf("%d -> %s", fd, l))
	}
	sort.Strings(x.FDLeaks)
	return x
}
