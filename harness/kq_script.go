package main

// Replaying the repository's testdata scripts: used to validate the simulated
// kqueue kernel against the recorded kqueue / freebsd expectations.

import (
	"fmt"
	"os"
	"path/filepath"
	"sort"
	"strconv"
	"strings"
)

type scriptExp struct {
	Name string
	Op   string // e.g. "CREATE", "WRITE"
}

// parseScript turns a testdata script into a scenario (paths relative to the
// scratch root) and the expected events for the given platform groups.
// ok=false: the script does not apply to kqueue/freebsd (skipped by the suite).
func parseScript(name, text string) (sc *Scenario, want []scriptExp, ok bool, why string) {
	sc = &Scenario{Prop: "C18", Family: "script", Cfg: Cfg{Policy: "fifo", MaxSteps: 50000, Lagfree: false, BatchMode: 2, Script: name}}
	sc.Setup = []Op{{K: OpNewWatcher, N: -1}}
	var ops []Op
	q := Op{K: OpQuiesce}
	rel := func(p string) string {
		if strings.HasPrefix(p, "./") {
			return "\x00" + p // relative symlink target, verbatim
		}
		p = strings.TrimPrefix(p, "/")
		if p == "" {
			return "."
		}
		return p
	}
	lines := strings.Split(text, "\n")
	readW := false
	var wantText []string
	for _, line := range lines {
		line = strings.TrimSpace(line)
		if line == "" || line[0] == '#' {
			continue
		}
		if i := strings.IndexByte(line, '#'); i > -1 {
			line = strings.TrimSpace(line[:i])
		}
		if line == "Output:" {
			readW = true
			continue
		}
		if readW {
			wantText = append(wantText, line)
			continue
		}
		// tokenise
		var toks []string
		cur := ""
		inq := false
		for _, c := range line {
			switch c {
			case ' ', '\t':
				if inq {
					cur += string(c)
				} else if cur != "" {
					toks = append(toks, cur)
					cur = ""
				}
			case '"', '\'':
				inq = !inq
			default:
				cur += string(c)
			}
		}
		if cur != "" {
			toks = append(toks, cur)
		}
		if len(toks) == 0 {
			continue
		}
		cmd, args := toks[0], toks[1:]
		switch cmd {
		case "skip", "require":
			switch args[0] {
			case "op_all", "op_open", "op_read", "op_close_write", "op_close_read", "always", "mknod", "recurse", "filter", "nofollow":
				return nil, nil, false, cmd + " " + args[0]
			}
		case "state", "debug", "print":
		case "stop":
			goto done
		case "watch":
			if len(args) > 1 {
				return nil, nil, false, "watch with options"
			}
			ops = append(ops, Op{K: OpAdd, P: rel(args[0]), Abs: true})
		case "unwatch":
			ops = append(ops, Op{K: OpRemove, P: rel(args[0]), Abs: true})
		case "watchlist":
			n, _ := strconv.Atoi(args[0])
			ops = append(ops, Op{K: OpWatchList, N: n})
		case "touch":
			ops = append(ops, Op{K: OpCreate, P: rel(args[0])}, q)
		case "mkdir":
			if len(args) == 2 && args[0] == "-p" {
				// MkdirAll: every missing level, no pause in between
				p := rel(args[1])
				parts := strings.Split(p, "/")
				for i := range parts {
					ops = append(ops, Op{K: OpMkdir, P: strings.Join(parts[:i+1], "/"), N: 1})
				}
				ops = append(ops, q)
			} else {
				ops = append(ops, Op{K: OpMkdir, P: rel(args[0])}, q)
			}
		case "ln":
			t := rel(args[1])
			if strings.HasPrefix(t, "\x00") {
				t = t[1:]
			} else {
				t = "\x01" + t // absolute: root-prefixed at execution
			}
			ops = append(ops, Op{K: OpSymlink, P: rel(args[2]), P2: t}, q)
		case "mkfifo":
			ops = append(ops, Op{K: OpMkfifo, P: rel(args[0])}, q)
		case "mknod":
			return nil, nil, false, "mknod"
		case "mv":
			ops = append(ops, Op{K: OpRename, P: rel(args[0]), P2: rel(args[1])}, q)
		case "rm":
			if len(args) == 2 && args[0] == "-r" {
				ops = append(ops, Op{K: OpRmRF, P: rel(args[1]), N: 1}, q)
			} else {
				ops = append(ops, Op{K: OpUnlink, P: rel(args[0])}, q)
			}
		case "chmod":
			n, _ := strconv.ParseUint(args[0], 8, 32)
			ops = append(ops, Op{K: OpChmod, P: rel(args[1]), N: int(n) | 0o100000}, q)
		case "cat":
			ops = append(ops, Op{K: OpYield}, q)
		case "echo":
			var op, dst string
			if len(args) == 2 {
				op, dst = args[1][:1], args[1][1:]
				if strings.HasPrefix(dst, ">") {
					op, dst = op+dst[:1], dst[1:]
				}
			} else {
				op, dst = args[1], args[2]
			}
			if op == ">" {
				// os.Create, pause, write, pause
				ops = append(ops, Op{K: OpCreate, P: rel(dst)}, q, Op{K: OpWrite, P: rel(dst), N: 4}, q)
			} else {
				// open(O_CREAT|O_APPEND), pause, write, pause
				ops = append(ops, Op{K: "opencreate", P: rel(dst)}, q, Op{K: OpWrite, P: rel(dst), N: 4}, q)
			}
		case "sleep":
			ops = append(ops, q)
		default:
			return nil, nil, false, "unknown command " + cmd
		}
	}
done:
	sc.Tasks = []TaskScript{{Name: "script", Role: "world", Ops: ops}}
	// expectations: pick freebsd, else kqueue, else default
	groups := []string{""}
	events := map[string][]scriptExp{}
	defined := map[string]bool{}
	for _, line := range wantText {
		if strings.HasSuffix(line, ":") {
			groups = strings.Split(strings.TrimRight(line, ":"), ",")
			for i := range groups {
				groups[i] = strings.TrimSpace(groups[i])
				defined[groups[i]] = true
			}
			continue
		}
		f := strings.Fields(line)
		if len(f) != 2 && len(f) != 4 {
			if len(f) > 0 && (strings.ToLower(f[0]) == "empty" || strings.ToLower(f[0]) == "no-events") {
				for _, g := range groups {
					events[g] = []scriptExp{}
					defined[g] = true
				}
			}
			continue
		}
		for _, g := range groups {
			events[g] = append(events[g], scriptExp{Name: strings.Trim(f[1], `"`), Op: strings.ToUpper(f[0])})
			defined[g] = true
		}
	}
	defined[""] = true
	for _, g := range []string{"freebsd", "kqueue", ""} {
		if defined[g] {
			return sc, events[g], true, g
		}
	}
	return sc, events[""], true, ""
}

// scriptCompare compares delivered events with the script's expectation the
// way cmpEvents does (sorted renderings).
func scriptCompare(x *Exec, want []scriptExp) (bool, string) {
	var have, exp []string
	for _, wr := range x.W {
		for _, d := range wr.D {
			n := d.Name
			if n == x.root {
				n = "/"
			} else {
				n = strings.TrimPrefix(n, x.root)
			}
			have = append(have, fmt.Sprintf("%-8s %s", opString(d.Op), n))
		}
	}
	for _, e := range want {
		exp = append(exp, fmt.Sprintf("%-8s %s", e.Op, e.Name))
	}
	sort.Strings(have)
	sort.Strings(exp)
	if strings.Join(have, "\n") == strings.Join(exp, "\n") {
		return true, ""
	}
	return false, fmt.Sprintf("have:\n  %s\nwant:\n  %s", strings.Join(have, "\n  "), strings.Join(exp, "\n  "))
}

// loadScripts reads the testdata scripts of the repository.
func loadScripts(repo string) map[string]string {
	out := map[string]string{}
	for _, d := range []string{"watch-dir", "watch-file", "watch-symlink", "watch-recurse"} {
		ents, err := os.ReadDir(filepath.Join(repo, "testdata", d))
		if err != nil {
			continue
		}
		for _, e := range ents {
			b, err := os.ReadFile(filepath.Join(repo, "testdata", d, e.Name()))
			if err == nil {
				out[d+"/"+e.Name()] = string(b)
			}
		}
	}
	return out
}
