//go:build !kq

package main

import (
	"fmt"
	"path/filepath"
	"sort"
	"strings"

	"golang.org/x/sys/unix"
)

func (s *searcher) run() bool {
	m := newModel(s.recurse)
	m.FindAdd = s.findAdd
	m.ParentReported = s.parentReported
	m.Uncertain = s.uncertain
	return s.dfs(0, 0, 0, false, m, nil)
}

func sigOf(stack string) string {
	// keep fsnotify function names only, innermost first, deduplicated
	var out []string
	seen := map[string]bool{}
	for _, l := range strings.Split(stack, "\n") {
		l = strings.TrimSpace(l)
		if !strings.HasPrefix(l, "github.com/fsnotify/fsnotify.") {
			continue
		}
		f := strings.TrimPrefix(l, "github.com/fsnotify/fsnotify.")
		if i := strings.LastIndex(f, "("); i > 0 {
			f = f[:i]
		}
		if strings.HasPrefix(f, "Verif") {
			continue
		}
		if !seen[f] {
			seen[f] = true
			out = append(out, f)
		}
	}
	return strings.Join(out, "<")
}

func siteSig(site []string) string {
	var out []string
	for _, f := range site {
		if strings.HasPrefix(f, "fsnotify.") {
			f = strings.TrimPrefix(f, "fsnotify.")
			if i := strings.LastIndex(f, ":"); i > 0 {
				f = f[:i]
			}
			out = append(out, f)
		}
	}
	return strings.Join(out, "<")
}

// analyse evaluates every oracle over the recorded history of a run.
func analyse(x *Exec) *RunResult {
	res := &RunResult{Outcome: x.S.Outcome, Steps: x.S.Steps, States: x.S.DistinctStates(),
		Fingerprint: fmt.Sprintf("%016x", x.S.Fingerprint()), Counters: map[string]int{}, Relax: map[string]int{}}
	res.Deadlock = x.S.Deadlock
	cnt := res.Counters
	add := func(v Violation) { res.Violations = append(res.Violations, v) }

	// panics anywhere
	for _, t := range x.S.Tasks() {
		if t.Panic != nil {
			add(Violation{Kind: "panic", Watcher: -1, Site: sigOf(t.PanicStack), Detail: fmt.Sprintf("task %s panicked: %v", t.Name, t.Panic)})
		}
	}
	for _, c := range x.H {
		if c.Panic != "" {
			parts := strings.SplitN(c.Panic, " @ ", 2)
			site := ""
			if len(parts) == 2 {
				site = parts[1]
			}
			add(Violation{Kind: "panic", Watcher: c.W, Site: site, Detail: fmt.Sprintf("%s(%q) panicked: %s", c.Kind, c.Path, parts[0])})
		}
	}
	overlap := false
	for i, a := range x.H {
		for _, b := range x.H[i+1:] {
			if a.Task != b.Task && a.Phase == "body" && b.Phase == "body" && a.Inv <= b.Ret && b.Inv <= a.Ret {
				overlap = true
			}
		}
	}
	if overlap {
		cnt["runs_with_overlapping_api_calls"] = 1
	}

	aborted := x.S.Outcome != ""
	if x.S.Outcome == "budget" {
		res.Inconcl = "budget"
	}

	// liveness / terminal states
	if x.S.Outcome == "deadlock" {
		pending := false
		sites := map[string]string{}
		for _, t := range x.S.Tasks() {
			sites[t.Name] = siteSig(t.Site)
		}
		var holder string
		for _, t := range x.S.Tasks() {
			if t.Role == "reader" && len(t.Site) > 0 {
				holder = siteSig(t.Site)
			}
		}
		for _, c := range x.H {
			if c.Ret < 0 && c.Panic == "" {
				pending = true
				kind := "blocked-control-op"
				if c.Kind == OpClose {
					kind = "close-not-returning"
				}
				add(Violation{Kind: kind, Watcher: c.W, Site: c.Kind + "<" + sites[c.Task] + " | reader:" + holder,
					Detail: fmt.Sprintf("%s(%q) by %s invoked at step %d never returned; tasks: %s", c.Kind, c.Path, c.Task, c.Inv, strings.Join(x.S.Deadlock, "; "))})
			}
		}
		if !pending {
			stuckConsumer := false
			for _, wr := range x.W {
				if wr.ClosedRet > 0 && (wr.EvClosed == 0 || wr.ErrClosed == 0) {
					stuckConsumer = true
					add(Violation{Kind: "channel-not-closed", Watcher: wr.Idx, Site: "reader:" + holder,
						Detail: fmt.Sprintf("Close returned at step %d but Events closed=%v Errors closed=%v; tasks: %s", wr.ClosedRet, wr.EvClosed != 0, wr.ErrClosed != 0, strings.Join(x.S.Deadlock, "; "))})
				}
			}
			if !stuckConsumer {
				add(Violation{Kind: "deadlock", Watcher: -1, Site: "reader:" + holder, Detail: strings.Join(x.S.Deadlock, "; ")})
			}
		}
	}

	for _, wr := range x.W {
		if wr.W == nil {
			continue
		}
		cnt["events_delivered"] += len(wr.D)
		cnt["errors_delivered"] += len(wr.E)
		if wr.Inst != nil {
			in := wr.Inst
			cnt["records_fed"] += len(in.Fed)
			cnt["records_merged_by_coalescing"] += len(in.Merged)
			cnt["records_dropped_by_overflow"] += len(in.Dropped)
			cnt["overflow_episodes"] += in.Overflow
			cnt["fault_F8-rename-halves-reordered"] += in.Reordered
			cnt["reads"] += in.Reads
			cnt["records_decoded_at_nonzero_offset"] += in.OffsetNZ
			if in.MaxBatch > cnt["max_records_per_read"] {
				cnt["max_records_per_read"] = in.MaxBatch
			}
			for p, n := range in.PadHist {
				if n > 0 {
					cnt[fmt.Sprintf("name_padding_%02d", p)] += n
				}
			}
		}
		if wr.Inst != nil {
			for _, b := range wr.Inst.Bind {
				if b.Wd == 0 {
					continue
				}
				if who := foreignRemover(x, wr, b.Wd); who != "" {
					cnt["rm_watch_issued_for_another_watcher_hit_this_instance"]++
					add(Violation{Kind: "foreign-watch", Watcher: wr.Idx, Site: "rm",
						Detail: fmt.Sprintf("the kernel watch wd=%d (%q) of watcher %d was removed by an inotify_rm_watch that %s issued for a different Watcher: its descriptor number had been closed and handed out again", b.Wd, b.Path, wr.Idx, who)})
					break
				}
			}
		}
		if wr.Inst != nil && wr.Inst.TooSmall > 10 {
			add(Violation{Kind: "reader-stuck", Watcher: wr.Idx, Site: "read-buffer-too-small",
				Detail: fmt.Sprintf("the reader called read %d times with a buffer that cannot hold the next notification (%d bytes): the kernel answers EINVAL every time and nothing is ever delivered again", wr.Inst.TooSmall, func() int {
					if len(wr.Inst.Queue) > 0 {
						return len(wr.Inst.Queue[0].Raw)
					}
					return 0
				}())})
		}
		// a descriptor that child processes inherit outlives Close for as long as they live
		if wr.Inst != nil && !wr.Inst.CloExec {
			add(Violation{Kind: "fd-leak", Watcher: wr.Idx, Site: "not-close-on-exec", Detail: "the inotify instance was created without IN_CLOEXEC: every child process started while the Watcher is open keeps the instance and its watches alive after Close"})
		}
		// cap(Events)
		want := wr.BufReq
		if want < 0 {
			want = 0
		}
		if wr.Cap != want {
			add(Violation{Kind: "cap-mismatch", Watcher: wr.Idx, Site: "NewBufferedWatcher", Detail: fmt.Sprintf("cap(Events)=%d, requested %d", wr.Cap, wr.BufReq)})
		}
		// "... reporting Remove unless the watched parent directory already did": when
		// the kernel reports the end of a watched file (DELETE_SELF) and the removal of
		// its entry from a watched directory (DELETE) for one and the same unlink, the
		// Remove is delivered once, not under both spellings
		overflowed := wr.Inst != nil && len(wr.Inst.Dropped) > 0
		if wr.Inst != nil {
			for _, r := range wr.Inst.Fed {
				if r.Mask&unix.IN_Q_OVERFLOW != 0 {
					overflowed = true
				}
			}
		}
		// (not after a queue overflow: the Create between two removals of one name may be among the dropped records)
		if wr.Inst != nil && !overflowed {
			for i := 0; i+1 < len(wr.D); i++ {
				a, b := wr.D[i], wr.D[i+1]
				if a.Op&mRemove == 0 || b.Op&mRemove == 0 || filepath.Clean(a.Name) != filepath.Clean(b.Name) {
					continue
				}
				// exactly one unlink in the whole run produced removal records for this
				// name: one DELETE_SELF of a watch added under it, one DELETE of that
				// entry in a watched directory, both in the same kernel step
				name := filepath.Clean(a.Name)
				nSelf, nDel, selfStep, delStep := 0, 0, -1, -2
				for _, r := range wr.Inst.Fed {
					bd, ok := wr.Inst.Binding(r.Wd)
					if !ok {
						continue
					}
					if r.Mask&unix.IN_DELETE_SELF != 0 && filepath.Clean(bd.Path) == name {
						nSelf++
						selfStep = r.Step
					}
					if r.Mask&unix.IN_DELETE != 0 && r.Name != "" && filepath.Clean(bd.Path+"/"+r.Name) == name {
						nDel++
						delStep = r.Step
					}
				}
				if nSelf == 1 && nDel == 1 && selfStep == delStep {
					add(Violation{Kind: "phantom-event", Watcher: wr.Idx, Site: "duplicate-remove",
						Detail: fmt.Sprintf("one unlink (step %d) was reported twice in a row: %s, %s", delStep, a.Str, b.Str)})
				}
			}
		}
		// simple scans
		for _, d := range wr.D {
			if d.Op == 0 {
				add(Violation{Kind: "housekeeping-event", Watcher: wr.Idx, Site: "op0", Detail: "delivered an event with an empty operation set: " + d.Str})
			}
			if strings.ContainsRune(d.Name, 0) {
				add(Violation{Kind: "name-mismatch", Watcher: wr.Idx, Site: "NUL", Detail: fmt.Sprintf("event name carries padding bytes: %q", d.Name)})
			}
		}
		// errors
		nOverflowRec := 0
		injected := 0
		if wr.Inst != nil {
			for _, r := range wr.Inst.Fed {
				if r.Mask&unix.IN_Q_OVERFLOW != 0 {
					nOverflowRec++
				}
			}
			injected = wr.Inst.ReadFaults
		}
		nOverflowErr, nOther := 0, 0
		firstClose := 0
		for _, c := range x.H {
			if c.W == wr.Idx && c.Kind == OpClose && (firstClose == 0 || c.Inv < firstClose) {
				firstClose = c.Inv
			}
		}
		for _, e := range wr.E {
			switch {
			case firstClose > 0 && e.Step >= firstClose && e.Class == "EBADF":
				// a syscall on the descriptor that Close has just closed: outside what C10
				// quantifies over (benign filesystem histories, not concurrent Close)
				cnt["errors_while_closing_not_judged"]++
			case e.Class == "ErrEventOverflow":
				nOverflowErr++
			case e.Class == "EINTR" && injected > 0:
				injected--
			default:
				nOther++
				add(Violation{Kind: "spurious-error", Watcher: wr.Idx, Site: e.Class, Detail: fmt.Sprintf("Errors delivered %q (class %s) at step %d on a benign history", e.Err, e.Class, e.Step)})
			}
		}
		closedInBody := false
		for _, c := range x.H {
			if c.W == wr.Idx && c.Kind == OpClose && c.Phase == "body" {
				closedInBody = true
			}
		}
		if nOverflowErr > nOverflowRec {
			add(Violation{Kind: "spurious-error", Watcher: wr.Idx, Site: "ErrEventOverflow", Detail: fmt.Sprintf("%d overflow errors for %d overflow records", nOverflowErr, nOverflowRec)})
		}
		if nOverflowErr < nOverflowRec && !closedInBody && !aborted {
			add(Violation{Kind: "overflow-not-reported", Watcher: wr.Idx, Site: "ErrEventOverflow", Detail: fmt.Sprintf("%d overflow records were fed but only %d ErrEventOverflow values arrived", nOverflowRec, nOverflowErr)})
		}
		if nOverflowRec > 0 {
			cnt["runs_with_overflow"] = 1
		}

		// Stage B
		s := newSearcher(x, wr)
		if len(s.calls) > 60 {
			// too long for the search (the 50-cycle histories of C12): what is
			// left is the model-free half of the state oracle - kernel watches,
			// table sizes and the length of WatchList agree at final quiescence
			res.Inconcl = "too-many-calls"
			if !aborted {
				countOracle(x, wr, add, cnt)
			}
			continue
		}
		ok := s.run()
		cnt["search_nodes"] += s.nodes
		if x.sc.Family == "concurrent" && !aborted && len(s.calls)+len(s.L) <= 120 {
			switch porcupineCheck(x, wr, s) {
			case "Ok":
				cnt["porcupine_ok"]++
			case "Illegal":
				cnt["porcupine_illegal"]++
				if ok {
					// the weaker checker rejects what the stronger one accepted: one of them is wrong
					res.Inconcl = "oracle-disagreement"
					cnt["oracle_disagreement"]++
				} else {
					add(Violation{Kind: "not-linearizable", Watcher: wr.Idx, Site: "porcupine", Detail: "porcupine: the results of the Add/Remove/WatchList/Close calls are not consistent with any sequential order against the reference model; " + strings.Join(s.best.reasons, " || ")})
				}
			default:
				cnt["porcupine_unknown"]++
				res.Inconcl = "porcupine-unknown"
			}
		}
		if !ok {
			if s.nodes > s.limit {
				res.Inconcl = "search-budget"
				cnt["search_budget_exceeded"]++
				continue
			}
			if s.stageAFails > 0 && !aborted {
				// every otherwise acceptable linearisation loses something on the way in
				for _, v := range s.stageA {
					add(v)
				}
				continue
			}
			if aborted {
				// a run cut short by a deadlock / budget is judged up to the cut:
				// pending sends mean undelivered events are not losses
				vs := s.classify()
				for _, v := range vs {
					if v.Kind == "lost-event" || v.Kind == "history-not-explainable" || v.Kind == "order" {
						continue
					}
					add(v)
				}
				continue
			}
			for _, v := range s.classify() {
				add(v)
			}
			countOracle(x, wr, add, cnt)
			continue
		}
		for k, v := range s.relax {
			res.Relax[k] += v
		}
		if debugOracle {
			fmt.Printf("ORDER w%d %v\n", wr.Idx, s.order)
			for _, inc := range s.final.Incs {
				fmt.Printf("INC %+v\n", inc)
			}
		}
		if aborted {
			continue
		}
		if s.stageAFails > 0 {
			cnt["linearisations_rejected_by_stage_a"] += s.stageAFails
		}
		// state oracle at the final quiescence
		fm := s.atFinalWL
		if fm != nil && !fm.Closed && wr.Inst != nil && len(wr.Inst.Dropped) > 0 {
			cnt["state_checks_skipped_after_overflow"]++
		} else if fm != nil && !fm.Closed {
			var snap *Snapshot
			for i := range wr.Snaps {
				if wr.Snaps[i].Label == "final" {
					snap = &wr.Snaps[i]
				}
			}
			if snap != nil && snap.MarksOK {
				want := map[uint64]bool{}
				for _, w := range fm.W {
					want[w.Ino] = true
				}
				got := map[uint64]bool{}
				for _, mk := range snap.Marks {
					if got[mk.Ino] {
						continue
					}
					got[mk.Ino] = true
					if !want[mk.Ino] {
						b, _ := wr.Inst.Binding(int32(mk.Wd))
						if who := foreignCaller(x, wr, b.Step); who != nil {
							add(Violation{Kind: "foreign-watch", Watcher: wr.Idx, Site: who.Kind,
								Detail: fmt.Sprintf("the kernel instance of watcher %d holds wd=%d (%q) that was put there by %s(%q) of watcher %d [%d,%d]: a call on one Watcher acted on another Watcher's descriptor", wr.Idx, mk.Wd, b.Path, who.Kind, who.Path, who.W, who.Inv, who.Ret)})
							break
						}
						add(Violation{Kind: "kernel-mark-orphan", Watcher: wr.Idx, Site: "mark-without-listed-path",
							Detail: fmt.Sprintf("at final quiescence the kernel still holds wd=%d (added as %q) but no listed path is backed by it; WatchList model=%v marks=%d", mk.Wd, b.Path, spellings(fm), len(snap.Marks))})
						break
					}
				}
				for _, w := range fm.W {
					if !got[w.Ino] {
						if who := foreignRemover(x, wr, w.Wd); who != "" {
							add(Violation{Kind: "foreign-watch", Watcher: wr.Idx, Site: "rm",
								Detail: fmt.Sprintf("%q is listed by watcher %d but its kernel watch (wd=%d) was removed by %s: a syscall meant for another Watcher's descriptor acted on this one (number reuse)", w.Spelling, wr.Idx, w.Wd, who)})
							break
						}
						add(Violation{Kind: "kernel-mark-missing", Watcher: wr.Idx, Site: "listed-path-without-mark",
							Detail: fmt.Sprintf("at final quiescence %q is listed but the kernel holds no watch for its file", w.Spelling)})
						break
					}
				}
				for _, sz := range snap.MapSizes {
					if sz != len(fm.W) {
						add(Violation{Kind: "table-size", Watcher: wr.Idx, Site: "tables",
							Detail: fmt.Sprintf("internal tables hold %v entries for %d live watches", snap.MapSizes, len(fm.W))})
						break
					}
				}
				cnt["final_state_checks"]++
			}
		}
	}
	// after Close (judged also when the run ended in a terminal state: the snapshot was taken)
	for _, wr := range x.W {
		if wr.W == nil {
			continue
		}
		// after Close
		if wr.ClosedRet > 0 {
			for i := range wr.Snaps {
				sn := &wr.Snaps[i]
				if sn.Label != "closed" {
					continue
				}
				if sn.FDOpen {
					add(Violation{Kind: "fd-leak", Watcher: wr.Idx, Site: "Close", Detail: "the inotify descriptor is still open after Close returned and the system went quiescent"})
				}
			}
			if wr.EvClosed == 0 || wr.ErrClosed == 0 {
				add(Violation{Kind: "channel-not-closed", Watcher: wr.Idx, Site: "Close", Detail: fmt.Sprintf("after Close: Events closed=%v Errors closed=%v", wr.EvClosed != 0, wr.ErrClosed != 0)})
			}
			cnt["close_checks"]++
		}
		if aborted && wr.ClosedRet > 0 {
			for _, t := range x.S.Tasks() {
				if t.Role == "reader" && !t.Exited() && x.S.Outcome == "deadlock" && mainDone(x) {
					add(Violation{Kind: "task-leak", Watcher: wr.Idx, Site: siteSig(t.Site), Detail: "Close returned, the system is quiescent, and the reader goroutine is still alive: " + strings.Join(t.Site, " < ")})
					break
				}
			}
		}
	}
	if !aborted && x.sc.Family == "multi" {
		// C14: Watchers with the same watch-set and no API activity of their own
		// must deliver the same sequence, whatever their buffer size and pace.
		sig := func(wr *WatcherRec) string {
			var adds []string
			for _, c := range x.H {
				if c.W != wr.Idx {
					continue
				}
				if c.Phase == "body" {
					return ""
				}
				if c.Phase == "setup" && c.Kind == OpAdd && c.Class == "" {
					adds = append(adds, cleanPath(c.Path))
				}
			}
			sort.Strings(adds)
			return strings.Join(adds, "|")
		}
		var ref *WatcherRec
		for _, wr := range x.W {
			if wr.W == nil || wr.Inst == nil || sig(wr) == "" || len(wr.Inst.Merged) > 0 || len(wr.Inst.Dropped) > 0 {
				continue
			}
			if ref == nil {
				ref = wr
				continue
			}
			if sig(ref) != sig(wr) {
				continue
			}
			cnt["stream_comparisons"]++
			same := len(ref.D) == len(wr.D)
			for i := 0; same && i < len(ref.D); i++ {
				if ref.D[i].Name != wr.D[i].Name || ref.D[i].Op != wr.D[i].Op || ref.D[i].Str != wr.D[i].Str {
					same = false
				}
			}
			if !same {
				add(Violation{Kind: "stream-divergence", Watcher: wr.Idx, Site: "multi", Detail: fmt.Sprintf("watchers %d (buffer %d) and %d (buffer %d) have the same watch-set but delivered %d vs %d events / different sequences", ref.Idx, ref.BufReq, wr.Idx, wr.BufReq, len(ref.D), len(wr.D))})
			}
		}
		// a buffered Watcher absorbs up to its capacity with no consumer present
		for _, wr := range x.W {
			if wr.W == nil || wr.Idx >= len(x.sc.Cfg.Consumers) || x.sc.Cfg.Consumers[wr.Idx].Mode != "none" {
				continue
			}
			for i := range wr.Snaps {
				sn := &wr.Snaps[i]
				if sn.Label == "predrain" && len(wr.D) <= wr.Cap && len(wr.E) == 0 && sn.Reader != "inotify.read" && sn.Reader != "" {
					add(Violation{Kind: "absorb-failed", Watcher: wr.Idx, Site: sn.Reader, Detail: fmt.Sprintf("no consumer, %d events for a capacity of %d, yet the reader is parked on %q instead of waiting in read", len(wr.D), wr.Cap, sn.Reader)})
				}
				if sn.Label == "predrain" {
					cnt["absorb_checks"]++
				}
			}
		}
	}
	if !aborted {
		// goroutines: every library task must have exited by the end of the run
		for _, t := range x.S.Tasks() {
			if t.Role == "reader" && !t.Exited() {
				add(Violation{Kind: "task-leak", Watcher: -1, Site: t.Name, Detail: "a goroutine started by the library is still alive at the end of the run"})
			}
		}
		if x.FDsAfter != x.FDsBefore {
			add(Violation{Kind: "fd-leak", Watcher: -1, Site: "process", Detail: fmt.Sprintf("inotify descriptors of the process: %d before, %d after the run", x.FDsBefore, x.FDsAfter)})
		}
		if len(x.FDLeaks) > 0 {
			add(Violation{Kind: "fd-leak", Watcher: -1, Site: "process-descriptor", Detail: fmt.Sprintf("descriptors the process did not hold before the run and still holds after it (the harness has closed everything it opened itself): %v", x.FDLeaks)})
		}
		// failed NewWatcher leaks nothing
		for _, wr := range x.W {
			if wr.W == nil && wr.CreateErr != "" && len(x.sim.Inst) > 0 {
				cnt["failed_newwatcher"]++
			}
		}
	}
	if x.sc.Cfg.QueueLimit > 0 {
		// the survivability probe after an overflow: anything wrong with it is "dead after overflow"
		for _, v := range res.Violations {
			if strings.Contains(v.Detail, "zz_probe") {
				add(Violation{Kind: "dead-after-overflow", Watcher: v.Watcher, Site: v.Kind, Detail: "after a queue overflow the Watcher no longer serves a fresh watch correctly: " + v.Detail})
				break
			}
		}
	}
	for i := range x.sim.Faults.Names {
		cnt["fault_"+x.sim.Faults.Names[i]] += x.sim.Faults.Counts[i]
	}
	cnt["rendezvous"] = x.S.Rendezvous
	cnt["context_switches"] = x.S.Switches
	cnt["world_ops"] = len(x.WorldLog)
	cnt["api_calls"] = len(x.H)
	res.Nontrivial = cnt["events_delivered"] > 0 || overlap
	// dedupe
	seen := map[string]bool{}
	var vs []Violation
	for _, v := range res.Violations {
		k := v.Sig() + fmt.Sprint(v.Watcher)
		if !seen[k] {
			seen[k] = true
			vs = append(vs, v)
		}
	}
	res.Violations = vs
	return res
}

// foreignCaller finds the API call of another watcher that was executing the
// syscall which bound a mark on wr's instance at the given step.
func foreignCaller(x *Exec, wr *WatcherRec, step int) *APICall {
	if wr.Inst == nil {
		return nil
	}
	task := -1
	for _, c := range wr.Inst.Calls {
		if c.Kind == "add" && c.Step == step {
			task = c.Task
		}
	}
	for _, c := range x.H {
		if c.TaskID == task && c.W != wr.Idx && c.Inv <= step && (c.Ret < 0 || step <= c.Ret) && c.Kind != OpNewWatcher {
			return c
		}
	}
	return nil
}

// mainDone reports whether the main task ran to its end (every scripted call returned).
func mainDone(x *Exec) bool {
	for _, t := range x.S.Tasks() {
		if t.Role == "main" {
			return t.Exited()
		}
	}
	return false
}

// foreignRemover finds a successful inotify_rm_watch of wd on wr's instance that
// was not issued on behalf of wr (by its own reader or by an API call on wr).
func foreignRemover(x *Exec, wr *WatcherRec, wd int32) string {
	if wr.Inst == nil {
		return ""
	}
	myReader := -1
	ri := 0
	for _, t := range x.S.Tasks() {
		if t.Role == "reader" {
			if ri == wr.ReaderIdx {
				myReader = t.ID
			}
			ri++
		}
	}
	for _, c := range wr.Inst.Calls {
		if c.Kind != "rm" || c.Errno != 0 || int32(c.Wd) != wd || c.Task == myReader {
			continue
		}
		own := false
		for _, h := range x.H {
			if h.TaskID == c.Task && h.W == wr.Idx && h.Inv <= c.Step && (h.Ret < 0 || c.Step <= h.Ret) {
				own = true
			}
		}
		if !own {
			name := fmt.Sprintf("task %d", c.Task)
			for _, t := range x.S.Tasks() {
				if t.ID == c.Task {
					name = t.Name + "[" + t.Role + "]"
				}
			}
			return name
		}
	}
	return ""
}

func spellings(m *Model) []string {
	var out []string
	for _, w := range m.W {
		out = append(out, w.Spelling)
	}
	sort.Strings(out)
	return out
}

// countOracle is the model-free form of C12's state check, used when no
// linearisation exists (so the model's final watch set is not available): at
// the final quiescence of an open Watcher the number of kernel marks, the size
// of every internal table and the length of the WatchList the implementation
// itself returns must be one and the same number.
func countOracle(x *Exec, wr *WatcherRec, add func(Violation), cnt map[string]int) {
	if wr.Inst == nil || len(wr.Inst.Dropped) > 0 {
		return
	}
	var snap *Snapshot
	for i := range wr.Snaps {
		if wr.Snaps[i].Label == "final" {
			snap = &wr.Snaps[i]
		}
	}
	if snap == nil || !snap.MarksOK {
		return
	}
	for _, c := range x.H {
		if c.W == wr.Idx && c.Kind == OpClose && c.Inv <= snap.Step {
			return
		}
	}
	cnt["count_state_checks"]++
	n := len(snap.Marks)
	for _, sz := range snap.MapSizes {
		if sz != n {
			add(Violation{Kind: "table-size", Watcher: wr.Idx, Site: "tables-vs-marks",
				Detail: fmt.Sprintf("at final quiescence internal tables hold %v entries while the kernel holds %d watches for this Watcher", snap.MapSizes, n)})
			break
		}
	}
	for _, c := range x.H {
		if c.W == wr.Idx && c.Kind == OpWatchList && c.Phase == "epilogue" && c.Err == "" {
			if len(c.List) > n {
				add(Violation{Kind: "kernel-mark-missing", Watcher: wr.Idx, Site: "listed-paths-vs-marks",
					Detail: fmt.Sprintf("at final quiescence WatchList returns %d paths %v but the kernel holds only %d watches", len(c.List), c.List, n)})
			} else if len(c.List) < n {
				add(Violation{Kind: "kernel-mark-orphan", Watcher: wr.Idx, Site: "marks-vs-listed-paths",
					Detail: fmt.Sprintf("at final quiescence the kernel holds %d watches but WatchList returns only %d paths %v", n, len(c.List), c.List)})
			}
			break
		}
	}
}
