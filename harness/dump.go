//go:build !kq

package main

import "fmt"

func dumpRun(x *Exec, res *RunResult) {
	for _, l := range x.S.Trace {
		fmt.Println("TRACE", l)
	}
	for _, wr := range x.W {
		if wr.Inst != nil {
			for _, r := range wr.Inst.Fed {
				fmt.Printf("FED w%d feed@%d %s\n", wr.Idx, r.FeedStep, r)
			}
			for _, c := range wr.Inst.Calls {
				fmt.Printf("SYSCALL w%d %+v\n", wr.Idx, c)
			}
		}
		for _, d := range wr.D {
			fmt.Printf("EVENT w%d @%d %s\n", wr.Idx, d.Step, d.Str)
		}
		for _, e := range wr.E {
			fmt.Printf("ERROR w%d @%d %s\n", wr.Idx, e.Step, e.Err)
		}
	}
	for _, c := range x.H {
		fmt.Printf("CALL #%d %s %s(%q) w%d [%d,%d] err=%q list=%q panic=%q\n", c.Idx, c.Task, c.Kind, c.Path, c.W, c.Inv, c.Ret, c.Err, c.List, c.Panic)
	}
	for _, w := range x.WorldLog {
		fmt.Printf("WORLD @%d %s %+v err=%s\n", w.Step, w.Task, w.Op, w.Err)
	}
	if x.sim.Shadow != nil {
		for _, g := range x.sim.Shadow.G {
			fmt.Printf("G %s\n", g)
		}
	}
	for _, l := range res.Deadlock {
		fmt.Println("PARKED", l)
	}
}
