//go:build !kq

package main

import "github.com/fsnotify/fsnotify"

func initOps() {
	mOpen = uint32(fsnotify.VerifOpen)
	mRead = uint32(fsnotify.VerifRead)
	mCloseWrite = uint32(fsnotify.VerifCloseWrite)
	mCloseRead = uint32(fsnotify.VerifCloseRead)
}

func verifAdd(w *fsnotify.Watcher, path string, ops uint32, nofollow bool) error {
	if ops == 0 && !nofollow {
		return w.Add(path)
	}
	return fsnotify.VerifAddWith(w, path, fsnotify.Op(ops), nofollow)
}

func verifSetRecurse(b bool)                       { fsnotify.VerifSetRecurse(b) }
func verifBackend(w *fsnotify.Watcher) interface{} { return fsnotify.VerifBackend(w) }
