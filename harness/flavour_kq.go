//go:build kq

package main

import "path/filepath"

const isKq = true

func filepathEvalSymlinks(p string) (string, error) { return filepath.EvalSymlinks(p) }
