// Command harness runs simulated executions of fsnotify and checks them.
//
// Worker mode (default): generate and run scenarios for one property with run
// indices from, from+stride, … for a time budget; write an aggregate to -out.
// A run that ends abnormally (deadlock, budget) leaves goroutines behind, so
// the worker reports and exits with status 3; the driver restarts it after the
// index it printed.
//
// Replay mode: -replay FILE re-executes one recorded run.
package main

import (
	"encoding/json"
	"flag"
	"fmt"
	"os"
	"regexp"
	"runtime"
	"runtime/pprof"
	"sort"
	"strings"
	"time"

	"verifsim/ssim"
)

func runtimeStack(buf []byte) int { return runtime.Stack(buf, false) }

// Aggregate is what a worker reports.
type Aggregate struct {
	Prop       string            `json:"property"`
	Runs       int               `json:"runs"`
	Steps      int               `json:"steps"`
	Nontrivial int               `json:"nontrivial"`
	Prints     []string          `json:"fingerprints"` // distinct fingerprints of non-trivial runs
	States     int               `json:"states"`
	Counters   map[string]int    `json:"counters"`
	Relax      map[string]int    `json:"relax"`
	Inconcl    map[string]int    `json:"inconclusive"`
	OutOfScope map[string]int    `json:"out_of_scope"`
	Families   map[string]int    `json:"families"`
	Findings   []Finding         `json:"findings"`
	Samples    []json.RawMessage `json:"samples"`
	NextIndex  int               `json:"next_index"`
	Wall       float64           `json:"wall_s"`
	Aborted    bool              `json:"aborted"`
	Recorded   *Replay           `json:"recorded,omitempty"`
	AllPrints  []string          `json:"all_prints,omitempty"`
}

// Finding is a violation claimed by the property under check, with its replay.
type Finding struct {
	Violation Violation `json:"violation"`
	Replay    Replay    `json:"replay"`
}

func main() {
	prop := flag.String("prop", "C01", "property id")
	tier := flag.String("tier", "quick", "quick or thorough")
	seed := flag.Uint64("seed", 1, "VERIF_SEED")
	from := flag.Int("from", 0, "first run index")
	stride := flag.Int("stride", 1, "run index stride")
	secs := flag.Float64("secs", 5, "time budget in seconds")
	maxRuns := flag.Int("runs", 0, "maximum number of runs (0 = by time)")
	out := flag.String("out", "", "aggregate output file")
	replay := flag.String("replay", "", "replay file")
	verbose := flag.Bool("v", false, "print the trace of a replay")
	dump := flag.Bool("dump", false, "print generated scenarios instead of running them")
	maxFind := flag.Int("maxfind", 12, "stop after this many distinct findings")
	markers := flag.Bool("markers", false, "print a marker line to stderr before each run (race attribution)")
	record := flag.Bool("record", false, "include the replay of the last run in the aggregate")
	printAll := flag.Bool("printall", false, "include the fingerprint of every run, in order, in the aggregate")
	knownFile := flag.String("known", "", "known_findings.json: open findings do not count towards -maxfind")
	cpuprof := flag.String("cpuprofile", "", "write a CPU profile")
	flag.Parse()
	procs := 1
	if v := os.Getenv("VERIF_PROCS"); v != "" {
		fmt.Sscanf(v, "%d", &procs)
	}
	runtime.GOMAXPROCS(procs)
	if *cpuprof != "" {
		f, _ := os.Create(*cpuprof)
		pprof.StartCPUProfile(f)
		defer pprof.StopCPUProfile()
	}
	initOps()
	os.Unsetenv("FSNOTIFY_DEBUG")

	if *replay != "" {
		os.Exit(doReplay(*replay, *verbose))
	}

	start := time.Now()
	ag := &Aggregate{Prop: *prop, Counters: map[string]int{}, Relax: map[string]int{}, Inconcl: map[string]int{}, OutOfScope: map[string]int{}, Families: map[string]int{}}
	prints := map[string]struct{}{}
	sigs := map[string]bool{}
	claims := claimsOf(*prop)
	type knownT struct {
		Status, Property, Kind string
		SiteRegex              string `json:"site_regex"`
	}
	var known []knownT
	if *knownFile != "" {
		if b, err := os.ReadFile(*knownFile); err == nil {
			var kf struct{ Findings []knownT }
			if json.Unmarshal(b, &kf) == nil {
				for _, k := range kf.Findings {
					if k.Status == "open" && k.Property == *prop {
						known = append(known, k)
					}
				}
			}
		}
	}
	newFindings := 0
	flush := func(code int) {
		for p := range prints {
			ag.Prints = append(ag.Prints, p)
		}
		sort.Strings(ag.Prints)
		ag.Wall = time.Since(start).Seconds()
		pprof.StopCPUProfile()
		b, _ := json.Marshal(ag)
		if *out != "" {
			os.WriteFile(*out, b, 0o644)
		} else {
			os.Stdout.Write(b)
			fmt.Println()
		}
		os.Exit(code)
	}
	nils := 0
	for i := *from; ; i += *stride {
		if *maxRuns > 0 && ag.Runs >= *maxRuns {
			break
		}
		if *maxRuns == 0 && time.Since(start).Seconds() > *secs {
			break
		}
		ag.NextIndex = i + *stride
		rs := ssim.Mix(*seed, propNum(*prop), uint64(i))
		sc := generate(*prop, *tier, rs, i)
		if sc == nil {
			nils++
			if nils > 2000 {
				break
			}
			continue
		}
		nils = 0
		if *dump {
			b, _ := json.MarshalIndent(sc, "", " ")
			fmt.Println(string(b))
			ag.Runs++
			continue
		}
		if *markers {
			fmt.Fprintf(os.Stderr, "VERIF-RUN %d\n", i)
		}
		rec := &ssim.Recorder{Inner: ssim.NewRandom(ssim.Mix(rs, 77), ssim.Policy{Kind: sc.Cfg.Policy, SwitchProb: sc.Cfg.SwitchProb, Weights: sc.Cfg.Weights, PCTDepth: sc.Cfg.PCTDepth, PCTHorizon: 300})}
		x := execute(sc, rec, false)
		res := analyse(x)
		res.Decisions = len(rec.Log)
		if *record {
			ag.Recorded = &Replay{Scenario: *sc, Decisions: append([]int(nil), rec.Log...), Fingerprint: res.Fingerprint}
		}
		if *printAll {
			ag.AllPrints = append(ag.AllPrints, fmt.Sprintf("%d:%s:%d:%d", i, res.Fingerprint, res.Steps, len(res.Violations)))
		}
		ag.Runs++
		ag.Steps += res.Steps
		ag.States += res.States
		ag.Families[sc.Family]++
		for k, v := range res.Counters {
			if strings.HasPrefix(k, "max_") {
				if v > ag.Counters[k] {
					ag.Counters[k] = v
				}
			} else {
				ag.Counters[k] += v
			}
		}
		for k, v := range rec.Count {
			ag.Counters["decisions_"+k] += v
		}
		for k, v := range res.Relax {
			ag.Relax[k] += v
		}
		if res.Inconcl != "" {
			ag.Inconcl[res.Inconcl]++
		}
		if res.Outcome != "" {
			ag.Counters["outcome_"+res.Outcome]++
		}
		if res.Nontrivial {
			ag.Nontrivial++
			prints[res.Fingerprint] = struct{}{}
		}
		if len(ag.Samples) < 2 && res.Nontrivial && len(x.W) > 0 {
			ag.Samples = append(ag.Samples, sampleOf(sc, x, res))
		}
		for _, v := range res.Violations {
			if !claims[v.Kind] {
				ag.OutOfScope[v.Kind]++
				continue
			}
			if sigs[v.Sig()] {
				ag.Counters["duplicate_findings"]++
				continue
			}
			sigs[v.Sig()] = true
			vv := v
			ag.Findings = append(ag.Findings, Finding{Violation: v, Replay: Replay{Scenario: *sc, Decisions: append([]int(nil), rec.Log...), Violation: &vv, Fingerprint: res.Fingerprint}})
			isKnown := false
			for _, k := range known {
				if k.Kind == v.Kind {
					if ok, _ := regexp.MatchString(k.SiteRegex, v.Site); ok {
						isKnown = true
					}
				}
			}
			if !isKnown {
				newFindings++
			}
		}
		if res.Outcome != "" {
			ag.Aborted = true
			flush(3)
		}
		if newFindings >= *maxFind {
			break
		}
	}
	flush(0)
}

func sampleOf(sc *Scenario, x *Exec, res *RunResult) json.RawMessage {
	type s struct {
		Run    int          `json:"run"`
		Family string       `json:"family"`
		Config Cfg          `json:"config"`
		Setup  []Op         `json:"setup"`
		Tasks  []TaskScript `json:"tasks"`
		Steps  int          `json:"steps"`
		Print  string       `json:"fingerprint"`
		Events []string     `json:"delivered_events"`
		Errors []string     `json:"delivered_errors"`
	}
	v := s{Run: sc.Run, Family: sc.Family, Config: sc.Cfg, Setup: sc.Setup, Tasks: sc.Tasks, Steps: res.Steps, Print: res.Fingerprint}
	for _, wr := range x.W {
		for _, d := range wr.D {
			v.Events = append(v.Events, fmt.Sprintf("w%d@%d %s", wr.Idx, d.Step, strings.ReplaceAll(d.Str, x.root, "$ROOT")))
		}
		for _, e := range wr.E {
			v.Errors = append(v.Errors, fmt.Sprintf("w%d@%d %s", wr.Idx, e.Step, e.Err))
		}
	}
	if len(v.Events) > 40 {
		v.Events = append(v.Events[:40], "…")
	}
	b, _ := json.Marshal(v)
	return b
}

func propNum(p string) uint64 {
	var n uint64
	fmt.Sscanf(strings.TrimPrefix(p, "C"), "%d", &n)
	return n
}

func doReplay(file string, verbose bool) int {
	b, err := os.ReadFile(file)
	if err != nil {
		fmt.Fprintln(os.Stderr, err)
		return 2
	}
	var rp Replay
	if err := json.Unmarshal(b, &rp); err != nil {
		fmt.Fprintln(os.Stderr, err)
		return 2
	}
	debugOracle = verbose
	ch := &ssim.Replay{Dec: rp.Decisions}
	x := execute(&rp.Scenario, ch, verbose)
	res := analyse(x)
	if verbose {
		dumpRun(x, res)
	}
	want := ""
	if rp.Violation != nil {
		want = rp.Violation.Sig()
	}
	found := false
	for _, v := range res.Violations {
		fmt.Printf("REPLAY-VIOLATION kind=%s site=%s watcher=%d detail=%s\n", v.Kind, v.Site, v.Watcher, v.Detail)
		if v.Sig() == want {
			found = true
		}
	}
	fmt.Printf("REPLAY outcome=%q steps=%d fingerprint=%s violations=%d reproduced=%v\n", res.Outcome, res.Steps, res.Fingerprint, len(res.Violations), found)
	if found {
		return 1
	}
	if want == "" && len(res.Violations) > 0 {
		return 1
	}
	return 0
}
