package main

// A Scenario is the explicit, replayable description of one run: configuration,
// the initial tree and watch set (Setup, executed lag-free by the main task),
// and one operation list per concurrent task. It is generated from the run's
// PRNG before the run starts and is written verbatim into replay files.

type Op struct {
	K     string `json:"k"`             // operation kind
	W     int    `json:"w,omitempty"`   // watcher index (API ops)
	P     string `json:"p,omitempty"`   // path (relative to the scratch root unless Abs)
	P2    string `json:"p2,omitempty"`  // second path (rename/link target, symlink target text)
	Abs   bool   `json:"abs,omitempty"` // spell P as an absolute path (API ops)
	Ops   uint32 `json:"ops,omitempty"` // AddWith(withOps) – 0 = plain Add
	NoFol bool   `json:"nofol,omitempty"`
	N     int    `json:"n,omitempty"`   // size / fd slot / buffer size
	Rec   bool   `json:"rec,omitempty"` // recursive Add/Remove ("/..." appended)
	Raw   bool   `json:"raw,omitempty"` // P is passed to the API verbatim
	NQ    bool   `json:"nq,omitempty"`  // lag-free mode: do not wait for quiescence after this operation
}

// World operation kinds.
const (
	OpCreate   = "create"   // creat(P) and close
	OpWrite    = "write"    // open(P, O_WRONLY|O_APPEND), write N bytes, close – three syscalls in one step
	OpTruncate = "truncate" // truncate(P, N)
	OpChmod    = "chmod"    // chmod(P, N)
	OpUnlink   = "unlink"
	OpMkdir    = "mkdir"
	OpRmdir    = "rmdir"
	OpRename   = "rename"  // rename(P, P2)
	OpLink     = "link"    // link(P, P2)
	OpSymlink  = "symlink" // symlink(P2 as text, P)
	OpOpen     = "open"    // open(P, O_RDWR) into fd slot N
	OpOpenRO   = "openro"  // open(P, O_RDONLY) into fd slot N
	OpWriteFD  = "writefd" // write to fd slot N
	OpReadFD   = "readfd"
	OpCloseFD  = "closefd"
	OpRmRF     = "rmrf"       // remove a tree bottom-up, one syscall per step
	OpDeepMk   = "mkdir-deep" // build a chain of directories whose absolute path is N bytes long (component by component, through descriptors); later ops name it "@deep"
	OpLeaveRm  = "leave-rmrf" // leave the run's working directory (Cfg.Cwd) for its parent, then remove it like rmrf (a directory that is some process's cwd is not freed by rmdir)
	OpMkfifo   = "mkfifo"
	// API operations
	OpNewWatcher = "NewWatcher" // N<0: NewWatcher(), else NewBufferedWatcher(N)
	OpAdd        = "Add"
	OpRemove     = "Remove"
	OpWatchList  = "WatchList"
	OpClose      = "Close"
	// control
	OpQuiesce  = "quiesce"  // wait until the reader and consumers have nothing left to do
	OpConsumer = "consumer" // change consumer mode of watcher W to P
	OpYield    = "yield"
)

// TaskScript is one concurrent task of the body.
type TaskScript struct {
	Name string `json:"name"`
	Role string `json:"role"` // "world" or "client"
	Ops  []Op   `json:"ops"`
}

// ConsumerCfg is the behaviour of the consumer attached to a watcher.
type ConsumerCfg struct {
	Mode  string `json:"mode"`             // "both", "events", "errors", "none", "stop"
	StopN int    `json:"stop_n,omitempty"` // mode "stop": stop reading after this many values
	Nap   int    `json:"nap,omitempty"`    // per cent of the received events after which the consumer is away for three (simulated) seconds
}

// Cfg is the per-run configuration (the swarm).
type Cfg struct {
	Policy     string             `json:"policy"` // random, pct, fifo
	SwitchProb float64            `json:"switch_prob"`
	Weights    map[string]float64 `json:"weights,omitempty"`
	PCTDepth   int                `json:"pct_depth,omitempty"`
	MaxSteps   int                `json:"max_steps"`
	QueueLimit int                `json:"queue_limit,omitempty"`
	Coalesce   bool               `json:"coalesce,omitempty"`
	BatchMode  int                `json:"batch_mode,omitempty"`
	FaultAdd   int                `json:"fault_add,omitempty"`
	FaultInit  int                `json:"fault_init,omitempty"`
	FaultRead  int                `json:"fault_read,omitempty"`
	Reorder    int                `json:"reorder,omitempty"`   // F8: delay MOVED_TO halves past rename records of other tasks
	Cwd        string             `json:"cwd,omitempty"`       // run with this sub-directory of the scratch root as working directory (so that a watch on "." can see its directory removed)
	Lagfree    bool               `json:"lagfree,omitempty"`   // quiesce after every body operation (single sequential task)
	Recurse    bool               `json:"recurse,omitempty"`   // enable the recursive-watch switch
	Consumers  []ConsumerCfg      `json:"consumers,omitempty"` // per watcher index; default "both"
	NoEpilogue bool               `json:"no_epilogue,omitempty"`
	// Terminal: the body may end with control calls blocked; evaluate the
	// terminal state before draining (C05).
	Terminal bool `json:"terminal,omitempty"`
	// RemoveAllAtEnd: after the final WatchList, Remove every listed path and
	// take a "removed" snapshot before closing.
	RemoveAllAtEnd bool `json:"remove_all_at_end,omitempty"`
	// Script: name of the testdata script this scenario replays (kqueue validation).
	Script string `json:"script,omitempty"`
}

type Scenario struct {
	Prop   string       `json:"property"`
	Family string       `json:"family"`
	Seed   uint64       `json:"seed"`
	Run    int          `json:"run"`
	Cfg    Cfg          `json:"config"`
	Setup  []Op         `json:"setup"`
	Tasks  []TaskScript `json:"tasks"`
}

// Replay is a replay file.
type Replay struct {
	Scenario    Scenario   `json:"scenario"`
	Decisions   []int      `json:"decisions"`
	Violation   *Violation `json:"violation,omitempty"`
	TreeHash    string     `json:"tree_hash,omitempty"`
	Fingerprint string     `json:"fingerprint,omitempty"`
}
