package main

import (
	"errors"
	"fmt"
	"reflect"
	"sort"
	"strconv"
	"strings"
	"syscall"
	"time"

	"github.com/fsnotify/fsnotify"
	"golang.org/x/sys/unix"
	"verifsim/sinot"
	"verifsim/ssim"
)

// APICall is one entry of the API history H.
type APICall struct {
	Idx     int          `json:"idx"`
	Task    string       `json:"task"`
	TaskID  int          `json:"-"`
	W       int          `json:"w"`
	Kind    string       `json:"kind"`
	Path    string       `json:"path,omitempty"` // as passed
	Ops     uint32       `json:"ops,omitempty"`
	NoFol   bool         `json:"nofol,omitempty"`
	Rec     bool         `json:"rec,omitempty"`
	Inv     int          `json:"inv"`
	Ret     int          `json:"ret"` // -1: never returned
	Err     string       `json:"err,omitempty"`
	Class   string       `json:"class,omitempty"`
	List    []string     `json:"list,omitempty"`
	ListNil bool         `json:"list_nil,omitempty"`
	Calls   []sinot.Call `json:"-"`
	// what the path resolved to just before the call and just after it
	InoBefore, InoAfter uint64
	ResErrBefore        string
	DirBefore           bool
	Panic               string `json:"panic,omitempty"`
	Phase               string `json:"phase,omitempty"` // setup, body, epilogue, postclose
	LinkBefore          bool   `json:"-"`               // the (cleaned) path was a symbolic link when the call was made
	Real                string `json:"-"`               // kqueue flavour: absolute, symlink-free path of a successfully added path
}

type Delivered struct {
	Name string `json:"name"`
	Op   uint32 `json:"op"`
	Str  string `json:"str"`
	Step int    `json:"step"`
}

type ErrVal struct {
	Err   string `json:"err"`
	Class string `json:"class"`
	Step  int    `json:"step"`
}

// Mark is one kernel-side watch as listed by /proc/self/fdinfo.
type Mark struct {
	Wd   int
	Ino  uint64
	Mask uint32
}

// Snapshot is the observable state of a watcher at a quiescence point.
type Snapshot struct {
	Step     int
	Label    string
	Marks    []Mark
	MarksOK  bool
	MapSizes []int // sizes of every map reachable from the backend value
	QueueLen int
	FDOpen   bool   // the instance's descriptor is still an inotify descriptor of this process
	Reader   string // what the reader goroutine is parked on
}

// RemovedRec: at Step the world removed a directory entry of inode Ino.
type RemovedRec struct {
	Step int
	Ino  uint64
}

type WatcherRec struct {
	Idx         int
	W           *fsnotify.Watcher
	Inst        *sinot.Instance
	BufReq      int // requested buffer size, -1 = NewWatcher()
	Cap         int
	CreateErr   string
	D           []Delivered
	E           []ErrVal
	EvClosed    int // step at which the consumer saw Events closed (0 = never)
	ErrClosed   int
	Snaps       []Snapshot
	ctl         chan string
	cdone       chan struct{}
	consumer    *ssim.Task
	ClosedRet   int // step at which the first Close call returned (0 = never)
	cmode       string
	cstop       int
	cnap        int
	nInstBefore int
	ReaderIdx   int // ordinal of this watcher's reader among the reader tasks
}

type Exec struct {
	sc                  *Scenario
	sim                 *sinot.Sim
	kq                  kqState
	nReaders            int
	S                   *ssim.Sched
	root                string
	W                   []*WatcherRec
	H                   []*APICall
	fds                 map[int]int  // fd slots of the world
	Removed             []RemovedRec // inodes whose directory entry the world removed (unlink, rmdir, overwriting rename), with the step
	deepPrefix          string       // path (relative to the working directory) of the directory made by OpDeepMk
	deepFD              int          // O_PATH descriptor on it: the harness reaches what is below through /proc/self/fd/N/...
	BodyEnd             int
	taskDone            []bool
	nDone               int
	WorldLog            []WorldRec
	baseFDs             int
	Notes               []string
	FDsBefore, FDsAfter int
	FDLeaks             []string // descriptors (any kind) the process holds after the run that it did not hold before
	GoroutinesLeft      int
}

type WorldRec struct {
	Step int
	Task string
	Op   Op
	Err  string
	// what was there before the operation (kqueue flavour)
	PreExisted bool // create/write: the file existed; rename: the target existed
	IsDir      bool // the operand is a directory
}

//go:norace
func step() int { return ssim.S().Steps }

func classify(err error) string {
	if err == nil {
		return ""
	}
	switch {
	case errors.Is(err, fsnotify.ErrClosed):
		return "ErrClosed"
	case errors.Is(err, fsnotify.ErrNonExistentWatch):
		return "ErrNonExistentWatch"
	case errors.Is(err, fsnotify.ErrEventOverflow):
		return "ErrEventOverflow"
	}
	var en syscall.Errno
	if errors.As(err, &en) {
		switch en {
		case unix.EINVAL:
			return "EINVAL"
		case unix.ENOENT:
			return "ENOENT"
		case unix.ENOTDIR:
			return "ENOTDIR"
		case unix.ELOOP:
			return "ELOOP"
		case unix.ENAMETOOLONG:
			return "ENAMETOOLONG"
		case unix.ENOSPC:
			return "ENOSPC"
		case unix.ENOMEM:
			return "ENOMEM"
		case unix.EACCES:
			return "EACCES"
		case unix.EMFILE:
			return "EMFILE"
		case unix.ENFILE:
			return "ENFILE"
		case unix.EBADF:
			return "EBADF"
		case unix.EINTR:
			return "EINTR"
		}
		return "errno:" + strconv.Itoa(int(en))
	}
	return "other"
}

func (x *Exec) spell(op Op) string {
	p := op.P
	if op.Raw {
		return p
	}
	if op.Abs {
		// keep redundant elements of the spelling: join by hand
		p = x.root + "/" + p
	}
	if op.Rec {
		p += "/..."
	}
	return p
}

func isSymlink(p string) bool {
	var st unix.Stat_t
	return unix.Lstat(p, &st) == nil && st.Mode&unix.S_IFMT == unix.S_IFLNK
}

func resolve(path string, nofollow bool) (uint64, bool, string) {
	var st unix.Stat_t
	var err error
	if nofollow {
		err = unix.Lstat(path, &st)
	} else {
		err = unix.Stat(path, &st)
	}
	if err != nil {
		return 0, false, classify(err)
	}
	return st.Ino, st.Mode&unix.S_IFMT == unix.S_IFDIR, ""
}

// api performs one API operation as the calling task and records it.
func (x *Exec) api(task string, op Op, phase string) *APICall {
	c := &APICall{Idx: len(x.H), Task: task, TaskID: ssim.Cur().ID, W: op.W, Kind: op.K, Ops: op.Ops, NoFol: op.NoFol, Rec: op.Rec, Ret: -1, Phase: phase}
	x.H = append(x.H, c)
	if op.K == OpNewWatcher {
		c.Inv = step()
		wr := &WatcherRec{Idx: len(x.W), BufReq: op.N, nInstBefore: x.nInst()}
		var w *fsnotify.Watcher
		var err error
		func() {
			defer func() {
				if r := recover(); r != nil {
					c.Panic = fmt.Sprint(r)
				}
			}()
			if op.N < 0 {
				w, err = fsnotify.NewWatcher()
			} else {
				w, err = fsnotify.NewBufferedWatcher(uint(op.N))
			}
		}()
		c.Ret = step()
		wr.Idx = len(x.W) // (assigned after the call: other tasks may have created Watchers meanwhile)
		c.W = wr.Idx
		if err != nil {
			c.Err, c.Class = err.Error(), classify(err)
			wr.CreateErr = c.Class
		}
		if w != nil {
			wr.ReaderIdx = x.nReaders
			x.nReaders++
			wr.W = w
			wr.Cap = cap(w.Events)
			if x.nInst() > wr.nInstBefore {
				if in := x.lastInst(); in != nil && in.Ord >= wr.nInstBefore {
					wr.Inst = in
				}
			}
		}
		x.W = append(x.W, wr)
		return c
	}
	if op.W >= len(x.W) || x.W[op.W].W == nil {
		c.Inv, c.Ret = step(), step()
		c.Class = "no-watcher"
		return c
	}
	wr := x.W[op.W]
	w := wr.W
	nCalls := 0
	if wr.Inst != nil {
		nCalls = len(wr.Inst.Calls)
	}
	path := x.spell(op)
	c.Path = path
	if op.K == OpAdd || op.K == OpRemove {
		rp := path
		if op.Rec {
			rp = strings.TrimSuffix(path, "/...")
		}
		c.InoBefore, c.DirBefore, c.ResErrBefore = resolve(cleanPath(rp), op.NoFol)
		c.LinkBefore = isSymlink(cleanPath(rp))
	}
	var err error
	c.Inv = step()
	func() {
		defer func() {
			if r := recover(); r != nil {
				c.Panic = fmt.Sprint(r)
				ps := stackFuncs()
				c.Panic += " @ " + ps
			}
		}()
		switch op.K {
		case OpAdd:
			var opts []interface{}
			_ = opts
			err = verifAdd(w, path, op.Ops, op.NoFol)
		case OpRemove:
			err = w.Remove(path)
		case OpWatchList:
			l := w.WatchList()
			c.ListNil = l == nil
			c.List = append([]string(nil), l...)
			sort.Strings(c.List)
		case OpClose:
			err = w.Close()
		}
	}()
	c.Ret = step()
	if op.K == OpClose && wr.ClosedRet == 0 && c.Panic == "" {
		wr.ClosedRet = c.Ret
	}
	if err != nil {
		c.Err, c.Class = err.Error(), classify(err)
	}
	if op.K == OpAdd {
		rp := path
		if op.Rec {
			rp = strings.TrimSuffix(path, "/...")
		}
		c.InoAfter, _, _ = resolve(cleanPath(rp), op.NoFol)
		if isKq {
			ap := cleanPath(rp)
			if !strings.HasPrefix(ap, "/") {
				ap = x.root + "/" + ap
			}
			c.Real, _ = filepathEvalSymlinks(ap)
		}
	}
	if wr.Inst != nil {
		for _, sc := range wr.Inst.Calls[nCalls:] {
			if sc.Task == c.TaskID {
				c.Calls = append(c.Calls, sc)
			}
		}
	}
	return c
}

func stackFuncs() string {
	buf := make([]byte, 8192)
	n := runtimeStack(buf)
	var out []string
	for _, l := range strings.Split(string(buf[:n]), "\n") {
		if strings.HasPrefix(l, "github.com/fsnotify/fsnotify.") {
			f := strings.TrimPrefix(l, "github.com/fsnotify/fsnotify.")
			if i := strings.LastIndex(f, "("); i > 0 {
				f = f[:i]
			}
			out = append(out, f)
		}
	}
	return strings.Join(out, "<")
}

// consumer is the task receiving from Events and Errors of one watcher.
func (x *Exec) consumer(wr *WatcherRec) {
	ev := wr.W.Events
	er := wr.W.Errors
	mode := wr.cmode
	got := 0
	for ev != nil || er != nil {
		rdEv := ev != nil && (mode == "both" || mode == "events" || (mode == "stop" && got < wr.cstop))
		rdEr := er != nil && (mode == "both" || mode == "errors" || (mode == "stop" && got < wr.cstop))
		cases := []ssim.Case{ssim.R(wr.ctl)}
		ie, ir := -1, -1
		if rdEv {
			ie = len(cases)
			cases = append(cases, ssim.R(ev))
		}
		if rdEr {
			ir = len(cases)
			cases = append(cases, ssim.R(er))
		}
		sl, i := ssim.Select(false, cases...)
		switch {
		case i == 0:
			m := <-wr.ctl
			sl.Done()
			mode = m
			if m == "exit" {
				return
			}
		case i == ie:
			e, ok := <-ev
			sl.Done()
			if !ok {
				wr.EvClosed = step()
				ev = nil
				continue
			}
			got++
			wr.D = append(wr.D, Delivered{Name: e.Name, Op: uint32(e.Op), Str: e.String(), Step: step()})
			if wr.cnap > 0 && ssim.Choose(100, "nap") < wr.cnap {
				// away for a while: simulated time passes once nothing else can run
				ssim.Sleep(3 * time.Second)
			}
		case i == ir:
			e, ok := <-er
			sl.Done()
			if !ok {
				wr.ErrClosed = step()
				er = nil
				continue
			}
			got++
			s := "<nil>"
			if e != nil {
				s = e.Error()
			}
			wr.E = append(wr.E, ErrVal{Err: s, Class: classify(e), Step: step()})
		}
	}
}

func (x *Exec) startConsumer(wr *WatcherRec) {
	if wr.W == nil || wr.consumer != nil {
		return
	}
	wr.ctl = make(chan string)
	wr.cdone = make(chan struct{})
	wr.cmode = "both"
	if wr.Idx < len(x.sc.Cfg.Consumers) {
		cc := x.sc.Cfg.Consumers[wr.Idx]
		if cc.Mode != "" {
			wr.cmode = cc.Mode
		}
		wr.cstop = cc.StopN
		wr.cnap = cc.Nap
	}
	wr.consumer = ssim.Go(fmt.Sprintf("consumer%d", wr.Idx), "consumer", func() {
		defer ssim.Close(wr.cdone)
		x.consumer(wr)
	})
}

type flagWaiter struct{ x *Exec }

//go:norace
func (f flagWaiter) Ready() bool { return f.x.nDone >= len(f.x.sc.Tasks) }

func (x *Exec) doOp(task string, op Op, phase string) {
	if x.deepPrefix != "" {
		op.P = strings.Replace(op.P, "@deep", x.deepPrefix, 1)
		op.P2 = strings.Replace(op.P2, "@deep", x.deepPrefix, 1)
	}
	switch op.K {
	case OpNewWatcher:
		c := x.api(task, op, phase)
		x.startConsumer(x.W[c.W])
	case OpAdd, OpRemove, OpWatchList, OpClose:
		x.api(task, op, phase)
	case OpQuiesce:
		ssim.Quiesce()
	case OpConsumer:
		if op.W < len(x.W) && x.W[op.W].consumer != nil {
			x.tell(x.W[op.W], op.P)
		}
	default:
		x.world(task, op)
	}
}

func (x *Exec) mainTask() {
	sc := x.sc
	for _, op := range sc.Setup {
		x.doOp("main", op, "setup")
	}
	ssim.Quiesce()
	x.snapshot("setup")
	for i := range sc.Tasks {
		ts := sc.Tasks[i]
		ssim.Go(ts.Name, ts.Role, func() {
			for _, op := range ts.Ops {
				x.doOp(ts.Name, op, "body")
				if sc.Cfg.Lagfree && op.K != OpQuiesce && !op.NQ {
					ssim.Quiesce()
				}
			}
			x.nDone++
		})
	}
	ssim.WaitFor("join", 0, flagWaiter{x})
	x.BodyEnd = step()
	if sc.Cfg.NoEpilogue {
		return
	}
	// Epilogue: faults stop, draining consumers everywhere.
	x.stopFaults()
	if sc.Cfg.Terminal || sc.Family == "multi" {
		ssim.Quiesce()
		x.snapshot("predrain")
	}
	for _, wr := range x.W {
		if wr.consumer != nil {
			x.drainMode(wr)
		}
	}
	ssim.Quiesce()
	if sc.Cfg.QueueLimit > 0 && len(x.W) > 0 && x.W[0].W != nil && x.W[0].ClosedRet == 0 {
		// survivability after an overflow: a fresh watch, a fresh change, its event, a Remove
		x.world("main", Op{K: OpMkdir, P: "zz_probe"})
		x.api("main", Op{K: OpAdd, W: 0, P: "zz_probe"}, "probe")
		x.world("main", Op{K: OpCreate, P: "zz_probe/after-overflow"})
		ssim.Quiesce()
		x.api("main", Op{K: OpRemove, W: 0, P: "zz_probe"}, "probe")
		ssim.Quiesce()
	}
	x.snapshot("final")
	for _, wr := range x.W {
		if wr.W != nil {
			x.api("main", Op{K: OpWatchList, W: wr.Idx}, "epilogue")
		}
	}
	closedInBody := false
	for _, wr := range x.W {
		if wr.ClosedRet > 0 {
			closedInBody = true
		}
	}
	if sc.Cfg.RemoveAllAtEnd && !closedInBody {
		for _, c := range x.H {
			if c.Phase == "epilogue" && c.Kind == OpWatchList {
				for _, p := range c.List {
					x.api("main", Op{K: OpRemove, W: c.W, P: p, Raw: true}, "epilogue-remove")
				}
			}
		}
		ssim.Quiesce()
		x.snapshot("removed")
	}
	for _, wr := range x.W {
		if wr.W != nil {
			x.api("main", Op{K: OpClose, W: wr.Idx}, "epilogue")
		}
	}
	ssim.Quiesce()
	x.snapshot("closed")
	for _, wr := range x.W {
		if wr.W != nil {
			x.api("main", Op{K: OpAdd, W: wr.Idx, P: "."}, "postclose")
			x.api("main", Op{K: OpRemove, W: wr.Idx, P: "."}, "postclose")
			x.api("main", Op{K: OpWatchList, W: wr.Idx}, "postclose")
			x.api("main", Op{K: OpClose, W: wr.Idx}, "postclose")
		}
	}
}

// tell sends a mode change to a consumer unless it has already exited.
func (x *Exec) tell(wr *WatcherRec, mode string) {
	sl, i := ssim.Select(false, ssim.Sd(wr.ctl), ssim.R(wr.cdone))
	switch i {
	case 0:
		wr.ctl <- mode
		sl.Done()
	case 1:
		<-wr.cdone
		sl.Done()
	}
}

// drainMode switches a consumer to reading both channels.
func (x *Exec) drainMode(wr *WatcherRec) {
	x.tell(wr, "both")
}

// mapSizes returns the length of every map reachable from v (through pointers,
// structs and interfaces), in discovery order.
func mapSizes(v interface{}) []int {
	var out []int
	seen := map[uintptr]bool{}
	var walk func(rv reflect.Value, depth int)
	walk = func(rv reflect.Value, depth int) {
		if depth > 6 {
			return
		}
		switch rv.Kind() {
		case reflect.Ptr:
			if rv.IsNil() || seen[rv.Pointer()] {
				return
			}
			seen[rv.Pointer()] = true
			walk(rv.Elem(), depth+1)
		case reflect.Interface:
			if !rv.IsNil() {
				walk(rv.Elem(), depth+1)
			}
		case reflect.Struct:
			if strings.HasPrefix(rv.Type().PkgPath(), "verifsim/") {
				return
			}
			for i := 0; i < rv.NumField(); i++ {
				walk(rv.Field(i), depth+1)
			}
		case reflect.Map:
			out = append(out, rv.Len())
		}
	}
	walk(reflect.ValueOf(v), 0)
	return out
}
