//go:build kq

package main

import (
	"fmt"
	"os"
	"path/filepath"
	"sort"
	"strconv"
	"strings"
)

var scriptCache map[string]string

// analyse evaluates the kqueue oracles over the recorded history of a run.
func analyse(x *Exec) *RunResult {
	res := &RunResult{Outcome: x.S.Outcome, Steps: x.S.Steps, States: x.S.DistinctStates(),
		Fingerprint: fmt.Sprintf("%016x", x.S.Fingerprint()), Counters: map[string]int{}, Relax: map[string]int{}}
	res.Deadlock = x.S.Deadlock
	cnt := res.Counters
	add := func(v Violation) { res.Violations = append(res.Violations, v) }
	k := x.kq.kern
	aborted := x.S.Outcome != ""
	if x.S.Outcome == "budget" {
		res.Inconcl = "budget"
	}
	for _, t := range x.S.Tasks() {
		if t.Panic != nil {
			add(Violation{Kind: "panic", Watcher: -1, Site: sigOfKq(t.PanicStack), Detail: fmt.Sprintf("task %s panicked: %v", t.Name, t.Panic)})
		}
	}
	for _, c := range x.H {
		if c.Panic != "" {
			add(Violation{Kind: "panic", Watcher: c.W, Site: c.Kind, Detail: fmt.Sprintf("%s(%q) panicked: %s", c.Kind, c.Path, c.Panic)})
		}
	}
	if x.S.Outcome == "deadlock" {
		add(Violation{Kind: "deadlock", Watcher: -1, Site: "kq", Detail: strings.Join(x.S.Deadlock, "; ")})
	}
	for _, wr := range x.W {
		cnt["events_delivered"] += len(wr.D)
		cnt["errors_delivered"] += len(wr.E)
	}
	cnt["descriptors_opened"] = k.Opened
	cnt["descriptors_closed"] = k.Closed
	cnt["close_of_closed_descriptor"] = k.DoubleClose
	cnt["kevent_on_closed_descriptor"] = k.KeventOnClosed
	cnt["kevent_retrievals"] = k.Retrievals
	cnt["kq_order_permutations"] = k.Permuted
	if k.MaxBatch > 0 {
		cnt["max_kevents_per_retrieval"] = k.MaxBatch
	}
	for i := range k.Faults.Names {
		cnt["fault_"+k.Faults.Names[i]] += k.Faults.Counts[i]
	}
	cnt["world_ops"] = len(x.WorldLog)
	cnt["api_calls"] = len(x.H)
	res.Nontrivial = cnt["events_delivered"] > 0 || len(x.H) > 4

	// ---- script validation runs
	if x.sc.Cfg.Script != "" {
		if scriptCache == nil {
			scriptCache = loadScripts(os.Getenv("VERIF_REPO_DIR"))
		}
		_, want, ok, _ := parseScript(x.sc.Cfg.Script, scriptCache[x.sc.Cfg.Script])
		if ok && !aborted {
			if same, diff := scriptCompare(x, want); !same {
				add(Violation{Kind: "script-mismatch", Watcher: 0, Site: x.sc.Cfg.Script, Detail: diff})
			} else {
				cnt["scripts_matched"]++
			}
		}
		return res
	}

	// ---- C17: descriptors and tables
	user := map[int]map[string]bool{}
	for _, c := range x.H {
		if c.Kind == OpAdd && c.Class == "" && c.Ret >= 0 {
			if user[c.W] == nil {
				user[c.W] = map[string]bool{}
			}
			user[c.W][filepath.Clean(c.Path)] = true
			user[c.W][c.Path] = true
		}
		if c.Kind == OpWatchList && c.Ret >= 0 {
			seen := map[string]bool{}
			for _, p := range c.List {
				if !user[c.W][p] {
					add(Violation{Kind: "kq-internal-path-listed", Watcher: c.W, Site: "WatchList", Detail: fmt.Sprintf("WatchList shows %q, which the user never added (user paths: %v)", p, keys(user[c.W]))})
					break
				}
				if seen[p] {
					add(Violation{Kind: "kq-internal-path-listed", Watcher: c.W, Site: "WatchList-dup", Detail: fmt.Sprintf("WatchList shows %q twice", p)})
				}
				seen[p] = true
			}
		}
	}
	if !aborted {
		for _, s := range x.kq.snaps {
			switch s.Label {
			case "removed":
				cause := leakCause(x, append(append([]string(nil), s.VnodePaths...), s.MapKeys...), s.VnodePaths, s.KeyTabs)
				if s.Vnode != 0 {
					add(Violation{Kind: "kq-fd-leak", Watcher: -1, Site: "after-remove-all" + cause, Detail: fmt.Sprintf("after every listed path was removed %d watch descriptors are still open: %v", s.Vnode, trimRoot(x, s.VnodePaths))})
				}
				for _, sz := range s.MapSizes {
					if sz != 0 {
						add(Violation{Kind: "kq-table-leak", Watcher: -1, Site: "after-remove-all" + cause, Detail: fmt.Sprintf("after every listed path was removed the tables still hold entries: sizes %v keys %v", s.MapSizes, trimRoot(x, s.MapKeys))})
						break
					}
				}
				cnt["removed_state_checks"]++
			case "closed":
				if s.Vnode != 0 || s.Kq != 0 || s.Pipe != 0 {
					add(Violation{Kind: "kq-fd-leak", Watcher: -1, Site: "after-close" + leakCause(x, s.VnodePaths, s.VnodePaths, s.KeyTabs), Detail: fmt.Sprintf("after Close and quiescence the Watcher still holds descriptors: %d kqueue, %d pipe ends, %d watch descriptors %v", s.Kq, s.Pipe, s.Vnode, trimRoot(x, s.VnodePaths))})
				}
				cnt["closed_state_checks"]++
			}
		}
		for _, t := range x.S.Tasks() {
			if t.Role == "reader" && !t.Exited() {
				add(Violation{Kind: "task-leak", Watcher: -1, Site: t.Name, Detail: "the reader goroutine is still alive at the end of the run"})
			}
		}
		for _, wr := range x.W {
			if wr.W != nil && wr.ClosedRet > 0 && (wr.EvClosed == 0 || wr.ErrClosed == 0) {
				add(Violation{Kind: "channel-not-closed", Watcher: wr.Idx, Site: "Close", Detail: "channels not closed after Close"})
			}
		}
	}

	// ---- C18: directory semantics (families that carry an expectation)
	if x.sc.Family == "kqdir" && !aborted {
		if x.sc.Cfg.Lagfree {
			for _, v := range checkKqDir(x) {
				add(v)
			}
			cnt["kqdir_lagfree_runs"]++
		} else {
			for _, v := range checkKqDirBurst(x) {
				add(v)
			}
			cnt["kqdir_burst_runs"]++
		}
	}
	// errors on benign histories
	for _, wr := range x.W {
		for _, e := range wr.E {
			cnt["errors_seen_"+e.Class]++
		}
	}
	seen := map[string]bool{}
	var vs []Violation
	for _, v := range res.Violations {
		kk := v.Sig() + fmt.Sprint(v.Watcher)
		if !seen[kk] {
			seen[kk] = true
			vs = append(vs, v)
		}
	}
	res.Violations = vs
	return res
}

// leakCause classifies what is left behind, so that distinct defects have
// distinct signatures: watches the user added through a symbolic link (which
// Remove cannot find again); leftovers of an Add that failed half-way.
func leakCause(x *Exec, left []string, vnodes []string, tabs map[string][]string) string {
	viaLink, failed, other, empty, unread, rewatched, stale, closing, removing, reused, deadMark := false, false, false, false, false, false, false, false, false, false, false
	// user directories whose path was renamed away / removed and re-created during the run
	rebound := map[string]int{} // path -> step of the mkdir that re-created it
	gone := map[string]bool{}
	for _, w := range x.WorldLog {
		if w.Err != "" {
			continue
		}
		switch w.Op.K {
		case OpRename, OpRmRF, OpRmdir:
			gone[w.Op.P] = true
		case OpMkdir:
			if gone[w.Op.P] {
				if _, had := rebound[w.Op.P]; !had {
					rebound[w.Op.P] = w.Step
				}
			}
		}
	}
	openedAt := map[string]int{}
	openers := map[string]map[int]bool{}
	for _, c := range x.kq.kern.Calls {
		if c.Kind == "open" && c.Errno == 0 {
			openedAt[cleanPath(c.Path)] = c.Step
			if openers[cleanPath(c.Path)] == nil {
				openers[cleanPath(c.Path)] = map[int]bool{}
			}
			openers[cleanPath(c.Path)][c.Task] = true
		}
	}
	hasFD := map[string]bool{}
	for _, p := range vnodes {
		hasFD[p] = true
	}
	dup := false
	removedEv := map[string]bool{}
	for _, wr := range x.W {
		for _, d := range wr.D {
			if d.Op&mRemove != 0 {
				removedEv[strings.TrimPrefix(d.Name, x.root+"/")] = true
			}
		}
	}
	denied := map[string]bool{}
	for _, c := range x.kq.kern.Calls {
		if c.Kind == "open" && (c.Errno == 13 || c.Errno == 1 || c.Errno == 2) { // EACCES, EPERM, ENOENT (dangling symlink)
			denied[cleanPath(c.Path)] = true
		}
	}
	rels := make([]string, len(left))
	for i, p := range left {
		rels[i] = strings.TrimPrefix(p, x.root+"/")
	}
	under := func(p, base string) bool { return base != "" && (p == base || strings.HasPrefix(p, base+"/")) }
	for ri, rel := range rels {
		// a key that is merely the parent directory of another leaked path (the
		// by-directory index) is derived, not a cause
		derived := false
		for _, o := range rels {
			if o != rel && strings.HasPrefix(o, rel+"/") && !strings.Contains(o[len(rel)+1:], "/") {
				derived = true
			}
		}
		if rel == "" || p0(left, rel) == "" {
			// the seen table is told about "" for every FIFO / socket entry
			empty = true
			continue
		}
		a, f := false, false
		for _, c := range x.H {
			if c.Kind != OpAdd {
				continue
			}
			cp := strings.TrimPrefix(cleanPath(c.Path), x.root+"/")
			real := strings.TrimPrefix(c.Real, x.root+"/")
			if c.Class == "" && c.LinkBefore && (under(rel, cp) || under(rel, real)) {
				a = true
			}
			if c.Class != "" && c.Class != "ErrClosed" && (under(rel, cp) || under(rel, real)) {
				f = true
			}
		}
		userFile := false
		for _, c := range x.H {
			if c.Kind == OpAdd && c.Class == "" && !c.DirBefore && strings.TrimPrefix(cleanPath(c.Path), x.root+"/") == rel {
				userFile = true
			}
		}
		isStale := false
		for u := range rebound {
			// (deliberately coarse: any leak below a watched path that was removed /
			// renamed away and re-created during the run. The scans of the reader and of
			// Add list a directory by path, and the ways in which a scan that belongs to
			// the old directory picks up entries of the new one are too many to tell
			// apart from the logs. Runs without such a re-creation are not affected.)
			if under(rel, u) {
				isStale = true
			}
		}
		raw := left[ri]
		_, opened := openedAt[raw]
		switch {
		case a:
			viaLink = true
		case f:
			failed = true
		case isStale:
			stale = true
		case len(openers[raw]) >= 2 && hasFD[raw]:
			dup = true
		case opened && setUpWhileClosing(x, raw):
			closing = true
		case opened && setUpWhileRemoving(x, raw):
			removing = true
		case orphanedByStaleKevent(x, raw):
			reused = true
		case userFile && removedEv[rel]:
			rewatched = true
		case derived:
		case !hasFD[raw] && len(tabs[raw]) > 0 && onlyIn(tabs[raw], "byUser") && removedDuringAdd(x, raw):
			deadMark = true
		case (denied[raw] || !opened || !hasFD[raw]) && onlyIn(tabs[raw], "seen"):
			// an entry that is not watched and is held by the seen table only
			unread = true
		default:
			other = true
		}
	}
	switch {
	case other || len(left) == 0:
		return ""
	case dup && !viaLink && !failed:
		return ":concurrent-duplicate-watch"
	case stale && !viaLink && !failed:
		return ":stale-directory-scan-after-path-rebound"
	case closing && !viaLink && !failed:
		return ":watch-set-up-while-closing"
	case removing && !viaLink && !failed:
		return ":watch-set-up-while-removing-its-directory"
	case reused && !viaLink && !failed:
		return ":stale-kevent-for-reused-descriptor"
	case rewatched && !viaLink && !failed:
		return ":user-file-rewatched-after-overwrite"
	case deadMark && !viaLink && !failed:
		return ":user-mark-of-watch-removed-during-Add"
	case unread && !viaLink && !failed:
		return ":seen-mark-of-unwatched-entry"
	case empty && !viaLink && !failed:
		return ":empty-path-entry"
	case viaLink && !failed:
		return ":added-through-symlink"
	case failed && !viaLink:
		return ":leftover-of-failed-Add"
	case viaLink && failed:
		return ":symlink+failed-Add"
	}
	return ""
}

func p0(left []string, rel string) string { return rel }

// removedDuringAdd: the watch of path was closed by another task (the reader,
// after a delete or rename; a Remove()) while the Add() that created it was
// still running, i.e. before Add() got to mark the path as added by the user.
func removedDuringAdd(x *Exec, path string) bool {
	for _, c := range x.H {
		if c.Kind != OpAdd || c.Class != "" || cleanPath(c.Path) != path {
			continue
		}
		for _, k := range x.kq.kern.Calls {
			if k.Kind != "close" || k.Task == c.TaskID || cleanPath(k.Path) != path || k.Step < c.Inv {
				continue
			}
			// the remover takes the watch out of the tables (its last exclusive
			// table lock before the close) and closes the descriptor afterwards
			claim := -1
			for _, l := range x.S.LockLog {
				if l.Excl && l.Task == k.Task && l.Step < k.Step {
					claim = l.Step
				}
			}
			if claim >= c.Inv && (c.Ret < 0 || claim <= c.Ret) {
				return true
			}
		}
	}
	return false
}

// oldDirWatchAlive: a descriptor for dir that was opened before step at is still open at step when.
func oldDirWatchAlive(x *Exec, dir string, at, when int) bool {
	calls := x.kq.kern.Calls
	for i, c := range calls {
		if c.Kind != "open" || c.Errno != 0 || c.Step >= at || cleanPath(c.Path) != dir {
			continue
		}
		closed := 1 << 30
		for _, k := range calls[i+1:] {
			if k.Kind == "close" && k.FD == c.FD {
				closed = k.Step
				break
			}
		}
		if closed > when {
			return true
		}
	}
	return false
}

func onlyIn(tabs []string, name string) bool {
	for _, t := range tabs {
		if t != name {
			return false
		}
	}
	return true
}

// setUp describes how the (last) watch on path came about: who opened it,
// when, and when its table entry was made (the opener's first exclusive table
// lock after registering the descriptor with the kqueue).
type setUp struct {
	task           int
	open, reg, ins int // steps; ins = 1<<30 if the entry was never made
	trigger        int // reader: step of the kevent retrieval whose batch it was handling; API task: invocation of the call
	api            *APICall
}

func setUpsOf(x *Exec, path string) []setUp {
	var out []setUp
	for _, o := range x.kq.kern.Calls {
		if o.Kind != "open" || o.Errno != 0 || cleanPath(o.Path) != path {
			continue
		}
		su := setUp{task: o.Task, open: o.Step, reg: o.Step, ins: 1 << 30, trigger: -1}
		for _, c := range x.kq.kern.Calls {
			if c.Kind == "kevent.add" && c.Task == su.task && c.FD == o.FD && c.Step >= su.open {
				su.reg = c.Step
				break
			}
		}
		for _, l := range x.S.LockLog {
			if l.Excl && l.Task == su.task && l.Step > su.reg {
				su.ins = l.Step
				break
			}
		}
		// a set-up that was abandoned (descriptor closed again by the same task
		// before any table update) never became a watch
		abandoned := false
		for _, c := range x.kq.kern.Calls {
			if c.Kind == "close" && c.Task == su.task && c.FD == o.FD && c.Step > su.reg && c.Step < su.ins {
				abandoned = true
			}
		}
		if abandoned {
			continue
		}
		for _, c := range x.H {
			if c.TaskID == su.task && c.Inv <= su.open && (c.Ret < 0 || c.Ret >= su.open) {
				su.api = c
				su.trigger = c.Inv
			}
		}
		if su.api == nil {
			for _, c := range x.kq.kern.Calls {
				if c.Kind == "kevent.read" && c.Task == su.task && c.Step <= su.open {
					su.trigger = c.Step
				}
			}
		}
		out = append(out, su)
	}
	return out
}

// orphanedByStaleKevent: the reader removed the watch of the entry's directory
// (or of the entry itself) on account of a kevent it had retrieved for that
// descriptor NUMBER before the descriptor was opened: the number had belonged
// to another watch at retrieval time, was closed by a Remove() and handed out
// again by an Add() while the batch was being worked through.
func orphanedByStaleKevent(x *Exec, path string) bool {
	calls := x.kq.kern.Calls
	for i, c := range calls {
		if c.Kind != "close" || c.Path == "" {
			continue
		}
		d := cleanPath(c.Path)
		if d != path && !strings.HasPrefix(path, d+"/") {
			continue
		}
		// the closer's last retrieval before the close, and whether it carried this number
		read := -1
		has := false
		for j := i - 1; j >= 0; j-- {
			if calls[j].Kind == "kevent.read" && calls[j].Task == c.Task {
				read = calls[j].Step
				has = strings.Contains(","+calls[j].Path, ","+strconv.Itoa(c.FD)+",")
				break
			}
		}
		if read < 0 || !has {
			continue
		}
		// when was the descriptor that is being closed opened?
		for j := i - 1; j >= 0; j-- {
			if calls[j].Kind == "open" && calls[j].Errno == 0 && calls[j].FD == c.FD {
				if calls[j].Step > read {
					return true
				}
				break
			}
		}
	}
	return false
}

// setUpWhileClosing: the entry was made after Close() had listed the paths it
// is going to remove (its first shared table lock), by another task. (A set-up
// cannot begin after Close has marked the Watcher closed: addWatch refuses.)
func setUpWhileClosing(x *Exec, path string) bool {
	for _, su := range setUpsOf(x, path) {
		for _, c := range x.H {
			if c.Kind != OpClose || c.Phase != "body" || c.TaskID == su.task {
				continue
			}
			for _, l := range x.S.LockLog {
				if !l.Excl && l.Task == c.TaskID && l.Step > c.Inv && (c.Ret < 0 || l.Step <= c.Ret) {
					if su.ins > l.Step {
						return true
					}
					break
				}
			}
		}
	}
	return false
}

// setUpWhileRemoving: the watch of the entry's directory was closed by another
// task (Remove(), or the reader after the directory was deleted / renamed)
// before the entry was made, although the set-up had been triggered before
// that (the Add was already running; the reader had already fetched the batch).
func setUpWhileRemoving(x *Exec, path string) bool {
	// (any watch the path ever had: once such an orphan exists, the "was it
	// overwritten?" logic of readEvents re-creates it after every delete of the entry)
	for _, su := range setUpsOf(x, path) {
		if su.trigger < 0 {
			continue
		}
		for _, c := range x.kq.kern.Calls {
			if c.Kind != "close" || c.Task == su.task || c.Path == "" {
				continue
			}
			d := cleanPath(c.Path)
			if !strings.HasPrefix(path, d+"/") {
				continue
			}
			if su.trigger < c.Step && su.ins > c.Step {
				return true
			}
		}
		// Remove(dir) is not atomic either: it closes the directory, lists its
		// entries and removes them one by one; a set-up that overlaps the call
		// (the reader handling an event of an entry that Remove has not got to yet) is missed
		for _, c := range x.H {
			if c.Kind != OpRemove || c.TaskID == su.task {
				continue
			}
			d := cleanPath(c.Path)
			if !strings.HasPrefix(path, d+"/") {
				continue
			}
			if su.trigger <= c.Ret && su.ins >= c.Inv {
				return true
			}
		}
	}
	return false
}

func keys(m map[string]bool) []string {
	var o []string
	for k := range m {
		o = append(o, k)
	}
	sort.Strings(o)
	return o
}

func trimRoot(x *Exec, ps []string) []string {
	var o []string
	for _, p := range ps {
		o = append(o, strings.TrimPrefix(p, x.root+"/"))
	}
	sort.Strings(o)
	return o
}

func sigOfKq(stack string) string {
	var out []string
	seen := map[string]bool{}
	for _, l := range strings.Split(stack, "\n") {
		l = strings.TrimSpace(l)
		if !strings.HasPrefix(l, "github.com/fsnotify/fsnotify.") {
			continue
		}
		f := strings.TrimPrefix(l, "github.com/fsnotify/fsnotify.")
		if i := strings.LastIndex(f, "("); i > 0 {
			f = f[:i]
		}
		if !seen[f] {
			seen[f] = true
			out = append(out, f)
		}
	}
	return strings.Join(out, "<")
}

// checkKqDir compares, epoch by epoch (one epoch = one operation followed by
// quiescence), the delivered events with the documented directory semantics.
func checkKqDir(x *Exec) []Violation {
	if len(x.W) == 0 || x.W[0].W == nil {
		return nil
	}
	wr := x.W[0]
	// watched directories: spelling by real path, each for the time between its
	// Add and its Remove (the history is sequential: API calls and filesystem
	// operations alternate in one task)
	type wdir struct {
		spelling, real string
		from, to       int
	}
	var dirs []wdir
	for _, c := range x.H {
		if c.Kind == OpAdd && c.Class == "" && (c.Phase == "setup" || c.Phase == "body") && c.Real != "" {
			dirs = append(dirs, wdir{filepath.Clean(c.Path), c.Real, c.Ret, 1 << 30})
		}
		if c.Kind == OpRemove && c.Class == "" && c.Phase == "body" {
			for i := range dirs {
				if dirs[i].spelling == filepath.Clean(c.Path) && dirs[i].to == 1<<30 {
					dirs[i].to = c.Inv
				}
			}
		}
	}
	// NOTE: EvalSymlinks runs after the history; the generator never moves the
	// watched directories themselves in this family, so the mapping is stable.
	now := 0
	spell := func(real string) (string, bool) {
		d := filepath.Dir(real)
		for _, w := range dirs {
			if w.real == d && w.from <= now && now < w.to {
				return w.spelling + "/" + filepath.Base(real), true
			}
		}
		return "", false
	}
	// epochs
	var out []Violation
	di := 0
	ops := x.WorldLog
	createdOnce := map[string]int{}
	for i, w := range ops {
		end := int(^uint(0) >> 1)
		if i+1 < len(ops) {
			end = ops[i+1].Step
		}
		if w.Task == "main" {
			continue // setup
		}
		now = w.Step
		var got []string
		for di < len(wr.D) && wr.D[di].Step < end {
			if wr.D[di].Step >= w.Step {
				got = append(got, opString(wr.D[di].Op)+" "+wr.D[di].Name)
			}
			di++
		}
		var want []string
		expect := func(op, real string) {
			if s, ok := spell(real); ok {
				want = append(want, op+" "+s)
			}
		}
		abs := func(p string) string { return x.root + "/" + p }
		if w.Err == "" {
			switch w.Op.K {
			case OpCreate, OpMkdir, OpMkfifo, OpSymlink:
				if w.Op.K == OpCreate && w.PreExisted {
					expect("CHMOD", abs(w.Op.P)) // touch of an existing file
				} else if w.Op.K == OpMkfifo {
					expect("CREATE", abs(w.Op.P))
				} else {
					expect("CREATE", abs(w.Op.P))
				}
			case OpWrite:
				expect("WRITE", abs(w.Op.P))
			case OpChmod, OpTruncate:
				// subdirectories of a watched directory are watched for removal and
				// rename only (documented: "mimic Linux providing delete events for
				// subdirectories"), so no Chmod is owed for them
				if !w.IsDir {
					expect("CHMOD", abs(w.Op.P))
				}
			case OpUnlink, OpRmdir:
				expect("REMOVE", abs(w.Op.P))
			case OpRename:
				expect("RENAME", abs(w.Op.P))
				if w.PreExisted { // overwrote an existing entry
					expect("REMOVE", abs(w.Op.P2))
				}
				expect("CREATE", abs(w.Op.P2))
			}
		}
		// "a name that is removed and created again is reported as Remove followed by Create"
		for gi, g := range got {
			if strings.HasPrefix(g, "CREATE ") {
				for _, h := range got[gi+1:] {
					if h == "REMOVE "+g[len("CREATE "):] && w.Op.K == OpRename && w.PreExisted {
						out = append(out, Violation{Kind: "kq-event-order", Watcher: 0, Site: w.Op.K,
							Detail: fmt.Sprintf("after %s %s %s (step %d, the target existed): delivered %v - the Create of the new entry precedes the Remove of the entry it replaced", w.Op.K, w.Op.P, w.Op.P2, w.Step, trimAll(x, got))})
						return out
					}
				}
			}
		}
		sort.Strings(got)
		sort.Strings(want)
		if strings.Join(got, "\n") != strings.Join(want, "\n") {
			kind := "kq-event-mismatch"
			for _, g := range got {
				if strings.HasPrefix(g, "CREATE ") {
					createdOnce[g]++
				}
			}
			nCreateGot, nCreateWant := 0, 0
			for _, g := range got {
				if strings.HasPrefix(g, "CREATE ") {
					nCreateGot++
				}
			}
			for _, g := range want {
				if strings.HasPrefix(g, "CREATE ") {
					nCreateWant++
				}
			}
			if nCreateGot > nCreateWant {
				kind = "kq-duplicate-create"
			} else if nCreateGot < nCreateWant {
				kind = "kq-missing-create"
			}
			out = append(out, Violation{Kind: kind, Watcher: 0, Site: w.Op.K,
				Detail: fmt.Sprintf("after %s %s %s (step %d): delivered %v, documented %v", w.Op.K, w.Op.P, w.Op.P2, w.Step, trimAll(x, got), trimAll(x, want))})
			return out
		}
	}
	return out
}

func trimAll(x *Exec, ps []string) []string {
	var o []string
	for _, p := range ps {
		o = append(o, strings.ReplaceAll(p, x.root+"/", ""))
	}
	return o
}

// checkKqDirBurst is the safety half of the directory semantics for histories
// without pauses: no Create for an entry that existed when the watch was added
// (and was not re-created since), never more Creates for a name than it had
// incarnations, no event for a name that never existed, and a Create for every
// entry that was created during the run and still exists at the end.
func checkKqDirBurst(x *Exec) []Violation {
	if len(x.W) == 0 || x.W[0].W == nil {
		return nil
	}
	wr := x.W[0]
	type wdir struct{ spelling, real string }
	var dirs []wdir
	for _, c := range x.H {
		if c.Kind == OpAdd && c.Class == "" && c.Phase == "setup" && c.Real != "" {
			dirs = append(dirs, wdir{filepath.Clean(c.Path), c.Real})
		}
	}
	// a directory the history removes again (always its first step) is not a watched directory of the history
	for _, c := range x.H {
		if c.Kind == OpRemove && c.Class == "" && c.Phase == "body" {
			for i := 0; i < len(dirs); i++ {
				if dirs[i].spelling == filepath.Clean(c.Path) {
					dirs = append(dirs[:i], dirs[i+1:]...)
					i--
				}
			}
		}
	}
	spell := func(real string) (string, bool) {
		d := filepath.Dir(real)
		for _, w := range dirs {
			if w.real == d {
				return w.spelling + "/" + filepath.Base(real), true
			}
		}
		return "", false
	}
	abs := func(p string) string { return x.root + "/" + p }
	ever := map[string]bool{}   // spelled names that existed at some time
	incarn := map[string]int{}  // incarnations that began during the body
	exists := map[string]bool{} // current existence, by spelled name
	born := func(p string, body bool) {
		if s, ok := spell(abs(p)); ok {
			ever[s] = true
			exists[s] = true
			if body {
				incarn[s]++
			}
		}
	}
	gone := func(p string) {
		if s, ok := spell(abs(p)); ok {
			exists[s] = false
		}
	}
	for _, w := range x.WorldLog {
		if w.Err != "" {
			continue
		}
		body := w.Task != "main"
		switch w.Op.K {
		case OpCreate, OpMkdir, OpMkfifo, OpSymlink, "opencreate":
			if !w.PreExisted {
				born(w.Op.P, body)
			}
		case OpWrite:
			if !w.PreExisted {
				born(w.Op.P, body)
			}
		case OpUnlink, OpRmdir, OpRmRF:
			gone(w.Op.P)
		case OpRename:
			gone(w.Op.P)
			born(w.Op.P2, body) // overwriting counts as a new incarnation of the target name
		case OpLink:
			born(w.Op.P2, body)
		}
	}
	creates := map[string]int{}
	for _, d := range wr.D {
		if !ever[d.Name] {
			isDir := false
			for _, w := range dirs {
				if w.spelling == d.Name {
					isDir = true
				}
			}
			if !isDir {
				return []Violation{{Kind: "kq-event-mismatch", Watcher: 0, Site: "burst:unknown-name", Detail: fmt.Sprintf("event %s for a name that never existed in a watched directory", strings.ReplaceAll(d.Str, x.root+"/", ""))}}
			}
		}
		if d.Op&mCreate != 0 {
			creates[d.Name]++
		}
	}
	for n, c := range creates {
		if c > incarn[n] {
			return []Violation{{Kind: "kq-duplicate-create", Watcher: 0, Site: "burst", Detail: fmt.Sprintf("%d Create events for %q, which came into existence %d times while watched", c, strings.TrimPrefix(n, x.root+"/"), incarn[n])}}
		}
	}
	for n, e := range exists {
		if e && incarn[n] > 0 && creates[n] == 0 {
			return []Violation{{Kind: "kq-missing-create", Watcher: 0, Site: "burst", Detail: fmt.Sprintf("%q was created while its directory was watched and still exists, but no Create was delivered", strings.TrimPrefix(n, x.root+"/"))}}
		}
	}
	return nil
}
