package main

// Violation is one property violation found in a run.
type Violation struct {
	Kind    string `json:"kind"`
	Watcher int    `json:"watcher"`
	Detail  string `json:"detail"`
	Site    string `json:"site,omitempty"` // site signature (function names / op kinds), no line numbers
}

func (v Violation) Sig() string { return v.Kind + "|" + v.Site }

// RunResult is what the analysis of one run produces.
type RunResult struct {
	Outcome     string         `json:"outcome"`
	Violations  []Violation    `json:"violations,omitempty"`
	Fingerprint string         `json:"fingerprint"`
	Steps       int            `json:"steps"`
	Decisions   int            `json:"decisions"`
	States      int            `json:"states"`
	Nontrivial  bool           `json:"nontrivial"`
	Counters    map[string]int `json:"counters"`
	Relax       map[string]int `json:"relax,omitempty"`
	Inconcl     string         `json:"inconclusive,omitempty"`
	Deadlock    []string       `json:"deadlock,omitempty"`
	Sample      interface{}    `json:"sample,omitempty"`
}
