package main

import (
	"path/filepath"
	"strings"
)

// cleanPath is the documented normalisation of an Add/Remove argument.
func cleanPath(p string) string { return filepath.Clean(p) }

// Violation is one property violation found in a run.
type Violation struct {
	Kind    string `json:"kind"`
	Watcher int    `json:"watcher"`
	Detail  string `json:"detail"`
	Site    string `json:"site,omitempty"` // site signature (function names / op kinds), no line numbers
}

func (v Violation) Sig() string { return v.Kind + "|" + v.Site }

// RunResult is what the analysis of one run produces.
type RunResult struct {
	Outcome     string         `json:"outcome"`
	Violations  []Violation    `json:"violations,omitempty"`
	Fingerprint string         `json:"fingerprint"`
	Steps       int            `json:"steps"`
	Decisions   int            `json:"decisions"`
	States      int            `json:"states"`
	Nontrivial  bool           `json:"nontrivial"`
	Counters    map[string]int `json:"counters"`
	Relax       map[string]int `json:"relax,omitempty"`
	Inconcl     string         `json:"inconclusive,omitempty"`
	Deadlock    []string       `json:"deadlock,omitempty"`
	Sample      interface{}    `json:"sample,omitempty"`
}

// fsnotify Op bits (documented values of the public constants; the four
// unportable ones come from the export file at init).
const (
	mCreate uint32 = 1 << iota
	mWrite
	mRemove
	mRename
	mChmod
)

var (
	mOpen, mRead, mCloseWrite, mCloseRead uint32
	mDefaultOps                           = mCreate | mWrite | mRemove | mRename | mChmod
)

func opString(o uint32) string {
	var p []string
	for _, x := range []struct {
		b uint32
		n string
	}{{mCreate, "CREATE"}, {mRemove, "REMOVE"}, {mWrite, "WRITE"}, {mOpen, "OPEN"}, {mRead, "READ"}, {mCloseWrite, "CLOSE_WRITE"}, {mCloseRead, "CLOSE_READ"}, {mRename, "RENAME"}, {mChmod, "CHMOD"}} {
		if x.b != 0 && o&x.b != 0 {
			p = append(p, x.n)
		}
	}
	if len(p) == 0 {
		return "[no events]"
	}
	return strings.Join(p, "|")
}

var debugOracle bool
