//go:build !kq

package main

// C07: the recorded API history is also handed to porcupine, as an independent
// linearizability checker. Operations are the Add/Remove/WatchList/Close calls
// of one Watcher (invoke/return stamped with scheduler step numbers) plus one
// operation per kernel record fed to the reader ("the kernel client": invoked
// when the record was read, returned when the reader asked for more). The
// sequential specification is the reference model M; a record operation has no
// observable output here (event outputs are checked by the linearisation search
// of oracle.go), so this is strictly weaker than that search – the two must
// never disagree in the direction "porcupine Illegal, search accepted".

import (
	"math"
	"time"

	"github.com/anishathalye/porcupine"
)

type pcIn struct {
	call *APICall
	rec  int
	ov   bool
}

func porcupineCheck(x *Exec, wr *WatcherRec, s *searcher) porcupine.CheckResult {
	last := x.S.Steps + 2
	var ops []porcupine.Operation
	for i, c := range s.calls {
		ret := c.Ret
		if ret < 0 {
			ret = last
		}
		ops = append(ops, porcupine.Operation{ClientId: c.TaskID % 64, Input: pcIn{call: c, rec: -1, ov: s.closeOv[i]}, Call: int64(2 * c.Inv), Output: c.Ret >= 0, Return: int64(2*ret + 1)})
	}
	for k := range s.L {
		up := s.upper[k]
		if up == math.MaxInt {
			up = last
		}
		ops = append(ops, porcupine.Operation{ClientId: 63, Input: pcIn{rec: k}, Call: int64(2 * s.L[k].FeedStep), Output: true, Return: int64(2*up + 1)})
	}
	// per-client operations must not overlap: the kernel client's records share
	// read intervals, so give each record its own client id beyond the tasks
	for i := range ops {
		ops[i].ClientId = i
	}
	nextRec := func(m *Model) int { return len(m.Incs) } // unused; kept for clarity
	_ = nextRec
	type st struct {
		m   *Model
		rec int // records consumed so far (they are consumed in feed order)
	}
	nm := porcupine.NondeterministicModel{
		Init: func() []interface{} {
			m := newModel(s.recurse)
			m.FindAdd, m.ParentReported, m.Uncertain = s.findAdd, s.parentReported, s.uncertain
			return []interface{}{st{m: m}}
		},
		Step: func(state, input, output interface{}) []interface{} {
			cur := state.(st)
			in := input.(pcIn)
			if in.call == nil {
				if in.rec != cur.rec {
					return nil // records are handled in the order they were read
				}
				mm := cur.m.clone()
				mm.Feed(&s.L[in.rec])
				return []interface{}{st{m: mm, rec: cur.rec + 1}}
			}
			mm := cur.m.clone()
			res := mm.Apply(in.call, in.ov)
			if in.call.Ret < 0 {
				return []interface{}{st{m: mm, rec: cur.rec}, cur}
			}
			if !res.OK {
				return nil
			}
			return []interface{}{st{m: mm, rec: cur.rec}}
		},
		Equal: func(a, b interface{}) bool {
			x, y := a.(st), b.(st)
			return x.rec == y.rec && x.m.key() == y.m.key()
		},
	}
	return porcupine.CheckOperationsTimeout(nm.ToModel(), ops, 10*time.Second)
}
