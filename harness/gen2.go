package main

import (
	"fmt"
	"strings"
)

// ---------------------------------------------------------------------------
// C04: watch-set semantics over a universe of awkward paths

var apiUniverse = []string{"u/f", "u/d", "u/lf", "u/ld", "u/rel/l", "u/h", "u/dangling", "u/loop1", "u/f/x", "u/missing", "u/g", "u/d/inner"}

func apiSetup() []Op {
	return []Op{
		{K: OpMkdir, P: "u"}, {K: OpCreate, P: "u/f"}, {K: OpCreate, P: "u/g"}, {K: OpMkdir, P: "u/d"}, {K: OpCreate, P: "u/d/inner"},
		{K: OpSymlink, P: "u/lf", P2: "f"}, {K: OpSymlink, P: "u/ld", P2: "d"}, {K: OpMkdir, P: "u/rel"}, {K: OpSymlink, P: "u/rel/l", P2: "../f"},
		{K: OpLink, P: "u/f", P2: "u/h"}, {K: OpSymlink, P: "u/dangling", P2: "nowhere"}, {K: OpSymlink, P: "u/loop1", P2: "loop2"}, {K: OpSymlink, P: "u/loop2", P2: "loop1"},
	}
}

func (g *gen) apiSpell(p string) (string, bool) {
	switch g.r.Intn(9) {
	case 0:
		return "./" + p, false
	case 1:
		return p + "/", false // note: trailing slash on a non-directory makes the kernel say ENOTDIR
	case 2:
		return strings.Replace(p, "/", "//", 1), false
	case 3:
		return "u/../" + p, false
	case 4:
		return p, true
	case 5:
		return "u/./" + strings.TrimPrefix(p, "u/"), false
	}
	return p, false
}

func genAPI(prop string, seed uint64, run int, tier string) *Scenario {
	g := newGen(seed)
	sc := &Scenario{Prop: prop, Family: "api", Seed: seed, Run: run}
	g.swarm(&sc.Cfg)
	sc.Cfg.Lagfree = g.chance(0.7)
	if !sc.Cfg.Lagfree && g.chance(0.4) {
		sc.Cfg.FaultAdd = 3 + g.r.Intn(8)
	}
	sc.Setup = append(apiSetup(), Op{K: OpNewWatcher, N: bufSizes[g.r.Intn(len(bufSizes))]})
	n := 2 + g.r.Intn(11)
	var ops []Op
	pathOp := func(k string) Op {
		p := apiUniverse[g.r.Intn(len(apiUniverse))]
		if g.chance(0.05) {
			p = "u/" + strings.Repeat("L", 300)
		}
		sp, abs := g.apiSpell(p)
		if !g.chance(0.5) {
			sp, abs = p, false
		}
		return Op{K: k, P: sp, Abs: abs}
	}
	for i := 0; i < n; i++ {
		switch g.r.Intn(12) {
		case 0, 1, 2, 3:
			ops = append(ops, pathOp(OpAdd))
		case 4, 5, 6:
			ops = append(ops, pathOp(OpRemove))
		case 7:
			ops = append(ops, Op{K: OpWatchList})
		case 8:
			// world: something observable on the files, to expose duplicate events through aliases
			ops = append(ops, []Op{{K: OpWrite, P: "u/f", N: 1}, {K: OpChmod, P: "u/f", N: 0o640}, {K: OpCreate, P: fmt.Sprintf("u/d/new%d", i)}, {K: OpWrite, P: "u/g", N: 1}}[g.r.Intn(4)])
		case 9:
			// delete / rename away / recreate
			ops = append(ops, []Op{{K: OpUnlink, P: "u/f"}, {K: OpRename, P: "u/f", P2: "u/moved"}, {K: OpCreate, P: "u/f"}, {K: OpRename, P: "u/g", P2: "u/f"}, {K: OpCreate, P: "u/g"},
				{K: OpRmRF, P: "u/d"}, {K: OpMkdir, P: "u/d"}}[g.r.Intn(7)])
		case 10:
			// re-point a symlink: unlink + symlink (two steps)
			l := []string{"u/lf", "u/ld", "u/rel/l"}[g.r.Intn(3)]
			t := []string{"g", "f", "d", "h"}[g.r.Intn(4)]
			if l == "u/rel/l" {
				t = "../" + t
			}
			ops = append(ops, Op{K: OpUnlink, P: l}, Op{K: OpSymlink, P: l, P2: t})
		case 11:
			ops = append(ops, Op{K: OpLink, P: "u/g", P2: fmt.Sprintf("u/hl%d", i)})
		}
	}
	ops = append(ops, Op{K: OpWrite, P: "u/f", N: 1}, Op{K: OpWrite, P: "u/g", N: 1}, Op{K: OpCreate, P: "u/d/last"})
	if sc.Cfg.Lagfree || g.chance(0.5) {
		sc.Tasks = []TaskScript{{Name: "seq", Role: "client", Ops: ops}}
	} else {
		var a, b []Op
		for _, o := range ops {
			if o.K == OpAdd || o.K == OpRemove || o.K == OpWatchList {
				a = append(a, o)
			} else {
				b = append(b, o)
			}
		}
		sc.Tasks = []TaskScript{{Name: "client0", Role: "client", Ops: a}, {Name: "world0", Role: "world", Ops: b}}
	}
	return sc
}

// ---------------------------------------------------------------------------
// C09 / C10 / C12: the life cycle of watched paths

func genLifecycle(prop string, seed uint64, run int, tier string, cycles int, overflow float64) *Scenario {
	g := newGen(seed)
	sc := &Scenario{Prop: prop, Family: "lifecycle", Seed: seed, Run: run}
	g.swarm(&sc.Cfg)
	sc.Cfg.Lagfree = g.chance(0.35)
	if g.chance(overflow) {
		sc.Cfg.QueueLimit = 2 + g.r.Intn(20)
	}
	if prop == "C10" && g.chance(0.1) {
		sc.Cfg.FaultRead = 6 + g.r.Intn(20)
	}
	if prop == "C10" && g.chance(0.6) {
		// all speeds relative to the reader
		sc.Cfg.Weights = map[string]float64{"reader": []float64{0.02, 0.1, 1, 10}[g.r.Intn(4)], "world": []float64{0.1, 1, 10}[g.r.Intn(3)]}
	}
	watchParent := g.chance(0.5)
	viaLink := g.chance(0.2)
	setup := []Op{{K: OpMkdir, P: "p"}, {K: OpMkdir, P: "elsewhere"}, {K: OpCreate, P: "p/file"}, {K: OpMkdir, P: "p/dir"}, {K: OpCreate, P: "p/dir/in"},
		{K: OpCreate, P: "p/other"}, {K: OpSymlink, P: "p/link", P2: "file"}, {K: OpSymlink, P: "p/dlink", P2: "dir"},
		{K: OpNewWatcher, N: bufSizes[g.r.Intn(len(bufSizes))]}}
	if watchParent {
		setup = append(setup, Op{K: OpAdd, P: "p"})
	}
	fileSp, dirSp := "p/file", "p/dir"
	if viaLink {
		fileSp, dirSp = "p/link", "p/dlink"
	}
	setup = append(setup, Op{K: OpAdd, P: fileSp}, Op{K: OpAdd, P: dirSp})
	if g.chance(0.3) {
		setup = append(setup, Op{K: OpAdd, P: "p/other"})
	}
	sc.Setup = setup
	var ops []Op
	if cycles == 0 {
		cycles = 1 + g.r.Intn(3)
	}
	for c := 0; c < cycles; c++ {
		// optional: keep the inode alive
		held := g.r.Intn(4)
		switch held {
		case 1:
			ops = append(ops, Op{K: OpOpen, P: "p/file", N: 0})
		case 2:
			ops = append(ops, Op{K: OpLink, P: "p/file", P2: fmt.Sprintf("elsewhere/keep%d", c)})
		case 3:
			ops = append(ops, Op{K: OpOpenRO, P: "p/file", N: 0}, Op{K: OpOpen, P: "p/file", N: 1})
		}
		// end the file's watch
		switch g.r.Intn(6) {
		case 0:
			ops = append(ops, Op{K: OpUnlink, P: "p/file"})
		case 1:
			ops = append(ops, Op{K: OpRename, P: "p/file", P2: "elsewhere/moved"}, Op{K: OpWrite, P: "elsewhere/moved", N: 1})
		case 2:
			ops = append(ops, Op{K: OpRename, P: "p/other", P2: "p/file"}, Op{K: OpCreate, P: "p/other"})
		case 3:
			ops = append(ops, Op{K: OpRename, P: "p/file", P2: "elsewhere/moved"}, Op{K: OpUnlink, P: "elsewhere/moved"})
		case 4:
			ops = append(ops, Op{K: OpRename, P: "p/file", P2: "p/renamed"}, Op{K: OpChmod, P: "p/renamed", N: 0o600}, Op{K: OpUnlink, P: "p/renamed"})
		case 5:
			ops = append(ops, Op{K: OpUnlink, P: "p/file"}, Op{K: OpRemove, P: fileSp})
		}
		if held == 1 || held == 3 {
			ops = append(ops, Op{K: OpWriteFD, N: held / 3}, Op{K: OpCloseFD, N: 0})
			if held == 3 {
				ops = append(ops, Op{K: OpCloseFD, N: 1})
			}
		}
		// a newcomer under the old name, before any re-Add
		if g.chance(0.7) {
			ops = append(ops, Op{K: OpCreate, P: "p/file"}, Op{K: OpWrite, P: "p/file", N: 1})
		}
		// the directory
		switch g.r.Intn(5) {
		case 0:
			ops = append(ops, Op{K: OpRmRF, P: "p/dir"})
		case 1:
			ops = append(ops, Op{K: OpRename, P: "p/dir", P2: "elsewhere/dirmoved"}, Op{K: OpCreate, P: "elsewhere/dirmoved/x"}, Op{K: OpRmRF, P: "elsewhere/dirmoved"})
		case 2:
			ops = append(ops, Op{K: OpRename, P: "p/dir", P2: "elsewhere/dirmoved"}, Op{K: OpUnlink, P: "elsewhere/dirmoved/in"}, Op{K: OpRmdir, P: "elsewhere/dirmoved"})
		case 3:
			ops = append(ops, Op{K: OpCreate, P: fmt.Sprintf("p/dir/n%d", c)})
		}
		if g.chance(0.5) {
			ops = append(ops, Op{K: OpQuiesce})
		}
		// API follow-up
		for k := g.r.Intn(4); k > 0; k-- {
			switch g.r.Intn(5) {
			case 0:
				ops = append(ops, Op{K: OpRemove, P: fileSp})
			case 1:
				ops = append(ops, Op{K: OpRemove, P: dirSp})
			case 2:
				ops = append(ops, Op{K: OpWatchList})
			case 3:
				ops = append(ops, Op{K: OpAdd, P: fileSp})
			case 4:
				ops = append(ops, Op{K: OpAdd, P: dirSp})
			}
		}
		// recreate and re-add for the next cycle
		ops = append(ops, Op{K: OpCreate, P: "p/file"}, Op{K: OpMkdir, P: "p/dir"}, Op{K: OpCreate, P: "p/dir/in"})
		if viaLink {
			ops = append(ops, Op{K: OpSymlink, P: "p/link", P2: "file"}, Op{K: OpSymlink, P: "p/dlink", P2: "dir"})
		}
		ops = append(ops, Op{K: OpAdd, P: fileSp}, Op{K: OpAdd, P: dirSp}, Op{K: OpWrite, P: "p/file", N: 1}, Op{K: OpCreate, P: fmt.Sprintf("p/dir/again%d", c)})
	}
	sc.Tasks = []TaskScript{{Name: "seq", Role: "world", Ops: ops}}
	return sc
}

// ---------------------------------------------------------------------------
// C11: rename correlation

func genRename(prop string, seed uint64, run int, tier string) *Scenario {
	g := newGen(seed)
	sc := &Scenario{Prop: prop, Family: "rename", Seed: seed, Run: run}
	g.swarm(&sc.Cfg)
	sc.Cfg.Lagfree = g.chance(0.2)
	sc.Cfg.Coalesce = false
	if !sc.Cfg.Lagfree && g.chance(0.15) {
		// a consumer that is away for seconds at a time between two events
		sc.Cfg.Consumers = []ConsumerCfg{{Mode: "both", Nap: 10 + g.r.Intn(30)}}
	}
	if !sc.Cfg.Lagfree && g.chance(0.12) {
		// a kernel queue that overflows now and then: the moves after an
		// overflow are correlated like any others (seed C11-h)
		sc.Cfg.QueueLimit = 3 + g.r.Intn(12)
	}
	setup := []Op{{K: OpMkdir, P: "a"}, {K: OpMkdir, P: "b"}, {K: OpMkdir, P: "out"}}
	nt := 1 + g.r.Intn(4)
	if sc.Cfg.Lagfree {
		nt = 1
	}
	if nt > 1 && g.chance(0.6) {
		sc.Cfg.Reorder = 1 + g.r.Intn(4)
	}
	var scripts [][]Op
	id := 0
	for t := 0; t < nt; t++ {
		var ops []Op
		// each task owns its files so that tasks never conflict on a name
		cur := fmt.Sprintf("a/t%d_0", t)
		setup = append(setup, Op{K: OpCreate, P: cur})
		outside := fmt.Sprintf("out/o%d", t)
		setup = append(setup, Op{K: OpCreate, P: outside})
		n := 2 + g.r.Intn(12)
		if g.chance(0.15) {
			n = 12 + g.r.Intn(30) // chains of more than ten moves
		}
		for i := 0; i < n; i++ {
			id++
			switch g.r.Intn(9) {
			case 8: // out to the unwatched place and back (or re-created) under the SAME name, then moved within:
				// the first half of the last move meets a stale, unmatched entry for its own old name
				o2 := fmt.Sprintf("out/y%d_%d", t, id)
				ops = append(ops, Op{K: OpRename, P: cur, P2: o2})
				if g.chance(0.5) {
					ops = append(ops, Op{K: OpRename, P: o2, P2: cur})
				} else {
					ops = append(ops, Op{K: OpCreate, P: cur})
				}
				to := fmt.Sprintf("%s/t%d_%d", []string{"a", "b"}[g.r.Intn(2)], t, id)
				ops = append(ops, Op{K: OpRename, P: cur, P2: to})
				cur = to
			case 0, 1, 2: // within / between watched directories
				to := fmt.Sprintf("%s/t%d_%d", []string{"a", "b"}[g.r.Intn(2)], t, id)
				ops = append(ops, Op{K: OpRename, P: cur, P2: to})
				cur = to
			case 3: // out to the unwatched place and back in: an unmatched cookie, then a cookie never seen on a moved-from
				o2 := fmt.Sprintf("out/x%d_%d", t, id)
				ops = append(ops, Op{K: OpRename, P: cur, P2: o2})
				to := fmt.Sprintf("%s/t%d_%d", []string{"a", "b"}[g.r.Intn(2)], t, id)
				if g.chance(0.5) {
					ops = append(ops, Op{K: OpCreate, P: fmt.Sprintf("a/plain%d_%d", t, id)})
				}
				ops = append(ops, Op{K: OpRename, P: o2, P2: to})
				cur = to
			case 4: // plain creation, hard link
				ops = append(ops, Op{K: OpCreate, P: fmt.Sprintf("b/c%d_%d", t, id)}, Op{K: OpLink, P: cur, P2: fmt.Sprintf("a/hl%d_%d", t, id)})
			case 5: // move in from outside
				to := fmt.Sprintf("b/in%d_%d", t, id)
				ops = append(ops, Op{K: OpRename, P: outside, P2: to}, Op{K: OpCreate, P: outside})
			case 6: // overwrite an existing entry
				victim := fmt.Sprintf("a/v%d_%d", t, id)
				ops = append(ops, Op{K: OpCreate, P: victim}, Op{K: OpRename, P: cur, P2: victim})
				cur = victim
			case 7:
				ops = append(ops, Op{K: OpWrite, P: cur, N: 1})
			}
		}
		scripts = append(scripts, ops)
	}
	setup = append(setup, Op{K: OpNewWatcher, N: bufSizes[g.r.Intn(len(bufSizes))]}, Op{K: OpAdd, P: "a"}, Op{K: OpAdd, P: "b"})
	// sometimes the moved entries have watches of their own, which an API caller
	// removes while the moves are in flight
	var cl []Op
	if g.chance(0.35) {
		for t := 0; t < nt; t++ {
			f := fmt.Sprintf("a/t%d_0", t)
			setup = append(setup, Op{K: OpAdd, P: f})
			cl = append(cl, Op{K: OpYield}, Op{K: OpRemove, P: f})
			if g.chance(0.5) {
				cl = append(cl, Op{K: OpWatchList})
			}
		}
	}
	if g.chance(0.25) {
		// the watch of a source directory is removed (and sometimes added again)
		// between the two halves of moves out of it
		d := []string{"a", "b"}[g.r.Intn(2)]
		cl = append(cl, Op{K: OpYield}, Op{K: OpRemove, P: d})
		if g.chance(0.5) {
			cl = append(cl, Op{K: OpYield}, Op{K: OpAdd, P: d})
		}
	}
	sc.Setup = setup
	for t, ops := range scripts {
		sc.Tasks = append(sc.Tasks, TaskScript{Name: fmt.Sprintf("world%d", t), Role: "world", Ops: ops})
	}
	if len(cl) > 0 && !sc.Cfg.Lagfree {
		sc.Tasks = append(sc.Tasks, TaskScript{Name: "client0", Role: "client", Ops: cl})
	}
	return sc
}

// ---------------------------------------------------------------------------
// C06 / C13: Close at an arbitrary point

// genReuse: Close of one Watcher while its reader still holds unprocessed
// notifications that make it issue syscalls (rename of a watched file), with a
// second Watcher created right away (descriptor number reuse) and given watches
// with the same small wd numbers.
func genReuse(prop string, seed uint64, run int) *Scenario {
	g := newGen(seed)
	sc := &Scenario{Prop: prop, Family: "reuse", Seed: seed, Run: run}
	g.swarm(&sc.Cfg)
	sc.Cfg.Weights = map[string]float64{"reader": []float64{0.02, 0.1, 0.5}[g.r.Intn(3)], "consumer": []float64{0.1, 1}[g.r.Intn(2)]}
	sc.Cfg.BatchMode = 2
	sc.Setup = []Op{{K: OpMkdir, P: "d0"}, {K: OpMkdir, P: "d1"}, {K: OpMkdir, P: "out"}, {K: OpCreate, P: "d0/f"}, {K: OpCreate, P: "d0/g"},
		{K: OpNewWatcher, N: []int{-1, 0, 1}[g.r.Intn(3)]}, {K: OpAdd, P: "d0/f"}, {K: OpAdd, P: "d0/g"}, {K: OpAdd, P: "d0"}}
	var w []Op
	for k := 1 + g.r.Intn(3); k > 0; k-- {
		w = append(w, Op{K: OpCreate, P: fmt.Sprintf("d0/x%d", k)})
	}
	w = append(w, Op{K: OpRename, P: "d0/f", P2: "out/f"}, Op{K: OpRename, P: "d0/g", P2: "out/g"})
	for k := g.r.Intn(3); k > 0; k-- {
		w = append(w, Op{K: OpCreate, P: fmt.Sprintf("d0/y%d", k)})
	}
	cl := []Op{{K: OpYield}, {K: OpClose, W: 0}}
	mk := []Op{{K: OpYield}, {K: OpNewWatcher, N: -1}, {K: OpAdd, W: 1, P: "d1"}, {K: OpAdd, W: 1, P: "d0"}, {K: OpAdd, W: 1, P: "out"}}
	if g.chance(0.5) {
		// closer and maker are one task: Close, then immediately a new Watcher
		sc.Tasks = []TaskScript{{Name: "world0", Role: "world", Ops: w}, {Name: "client0", Role: "client", Ops: append(cl, mk[1:]...)}}
	} else {
		sc.Tasks = []TaskScript{{Name: "world0", Role: "world", Ops: w}, {Name: "closer0", Role: "client", Ops: cl}, {Name: "maker", Role: "client", Ops: mk}}
	}
	sc.Tasks = append(sc.Tasks, TaskScript{Name: "world1", Role: "world", Ops: []Op{{K: OpYield}, {K: OpYield}, {K: OpCreate, P: "d1/late"}, {K: OpCreate, P: "out/late"}}})
	if g.chance(0.6) {
		// API calls on the Watcher that is being closed, overlapping the Close
		var ops []Op
		for k := 1 + g.r.Intn(3); k > 0; k-- {
			ops = append(ops, []Op{{K: OpRemove, W: 0, P: "d0"}, {K: OpAdd, W: 0, P: "d1"}, {K: OpRemove, W: 0, P: "d0/g"}, {K: OpAdd, W: 0, P: "out"}, {K: OpYield}}[g.r.Intn(5)])
		}
		sc.Tasks = append(sc.Tasks, TaskScript{Name: "client9", Role: "client", Ops: ops})
	}
	return sc
}

func genClose(prop string, seed uint64, run int, tier string) *Scenario {
	g := newGen(seed)
	sc := genMix(prop, seed, run, mixOpts{lagfree: 0, apiChurn: 0.2, shapes: []int{0, 0, 1}, overflow: 0.1, maxOps: 16, watchFiles: 0.3, worldTasks: 2,
		consumers: []string{"both", "both", "events", "errors", "none", "stop"}})
	sc.Family = "close"
	g.r.S ^= 0x5bd1e995
	if g.chance(0.25) {
		sc.Cfg.FaultRead = 4 + g.r.Intn(20) // F9: a transient read error now and then
	}
	// insert Close calls: 1–3 tasks, each 1–2 calls, at random positions; other
	// clients keep calling the API around them
	var watched []string
	for _, o := range sc.Setup {
		if o.K == OpAdd && !o.Abs && !strings.ContainsAny(o.P, ".") && !strings.Contains(o.P, "//") && !strings.HasSuffix(o.P, "/") {
			watched = append(watched, o.P)
		}
	}
	nclosers := 1 + g.r.Intn(3)
	for c := 0; c < nclosers; c++ {
		var ops []Op
		for k := g.r.Intn(4); k > 0; k-- {
			ops = append(ops, Op{K: OpYield})
		}
		if len(watched) > 0 && g.chance(0.4) {
			// invalidate a kernel watch right before Close: its notification is still unread
			p := watched[g.r.Intn(len(watched))]
			ops = append(ops, []Op{{K: OpRmRF, P: p}, {K: OpRename, P: p, P2: "out/closing" + fmt.Sprint(c)}}[g.r.Intn(2)])
		}
		ops = append(ops, Op{K: OpClose})
		for k := g.r.Intn(3); k > 0; k-- {
			ops = append(ops, []Op{{K: OpAdd, P: "d0"}, {K: OpRemove, P: "d0"}, {K: OpWatchList}, {K: OpClose}}[g.r.Intn(4)])
		}
		sc.Tasks = append(sc.Tasks, TaskScript{Name: fmt.Sprintf("closer%d", c), Role: "client", Ops: ops})
	}
	if g.chance(0.4) {
		if g.chance(0.6) {
			sc.Cfg.FaultInit = 2 + g.r.Intn(3)
		}
		// create and close further watchers in a loop, some of which fail at init
		var ops []Op
		nw := 1 + g.r.Intn(5)
		for k := 1; k <= nw; k++ {
			// (only this task creates watchers in the body, so their indices are 1, 2, …;
			// an index whose NewWatcher failed at init is skipped by the executor)
			ops = append(ops, Op{K: OpNewWatcher, N: -1}, Op{K: OpAdd, W: k, P: "d0"})
			if g.chance(0.5) {
				ops = append(ops, Op{K: OpAdd, W: k, P: "d1"})
			}
		}
		sc.Tasks = append(sc.Tasks, TaskScript{Name: "maker", Role: "client", Ops: ops})
	}
	return sc
}

// ---------------------------------------------------------------------------
// C05: control operations with events / an error pending and nobody reading

func genPending(prop string, seed uint64, run int, tier string) *Scenario {
	g := newGen(seed)
	sc := &Scenario{Prop: prop, Family: "pending", Seed: seed, Run: run}
	g.swarm(&sc.Cfg)
	sc.Cfg.Terminal = true
	mode := []string{"none", "events", "errors", "stop", "both"}[g.r.Intn(5)]
	sc.Cfg.Consumers = []ConsumerCfg{{Mode: mode, StopN: g.r.Intn(5)}}
	if g.chance(0.3) {
		sc.Cfg.QueueLimit = 2 + g.r.Intn(8)
	}
	if g.chance(0.1) {
		sc.Cfg.FaultRead = 6 + g.r.Intn(20)
	}
	buf := []int{-1, 0, 1, 64}[g.r.Intn(4)]
	setup := []Op{{K: OpMkdir, P: "d"}, {K: OpMkdir, P: "e"}, {K: OpCreate, P: "d/f"}, {K: OpCreate, P: "d/g"}, {K: OpMkdir, P: "d/sub"},
		{K: OpNewWatcher, N: buf}, {K: OpAdd, P: "d"}, {K: OpAdd, P: "d/f"}, {K: OpAdd, P: "d/sub"}}
	if g.chance(0.5) {
		setup = append(setup, Op{K: OpAdd, P: "d/g"})
	}
	sc.Setup = setup
	var w []Op
	for k := 1 + g.r.Intn(6); k > 0; k-- {
		switch g.r.Intn(6) {
		case 0:
			w = append(w, Op{K: OpRename, P: "d/f", P2: "e/f2"}, Op{K: OpUnlink, P: "e/f2"}) // rename-then-delete
		case 1:
			w = append(w, Op{K: OpRename, P: "d/sub", P2: "e/sub2"}, Op{K: OpRmdir, P: "e/sub2"}) // rename-then-rmdir
		case 2:
			for i := 0; i < 2+g.r.Intn(8); i++ {
				w = append(w, Op{K: OpCreate, P: fmt.Sprintf("d/b%d_%d", k, i)})
			}
		case 3:
			w = append(w, Op{K: OpWrite, P: "d/g", N: 1}, Op{K: OpChmod, P: "d/g", N: 0o600})
		case 4:
			w = append(w, Op{K: OpUnlink, P: "d/g"}, Op{K: OpCreate, P: "d/g"})
		case 5:
			w = append(w, Op{K: OpRename, P: "d/g", P2: "e/g2"}, Op{K: OpUnlink, P: "e/g2"})
		}
	}
	sc.Tasks = []TaskScript{{Name: "world0", Role: "world", Ops: w}}
	nclients := 1 + g.r.Intn(3)
	// a few runs: thousands of records without a name (16 bytes each, 4096 of
	// them fill the read buffer) are queued before the reader gets to run, so
	// one read hands the library more records than any per-read batch or
	// scratch capacity it may have; the control calls follow once everybody
	// else is blocked (seed C05-i)
	huge := g.chance(map[string]float64{"thorough": 0.01}[tier] + 0.003)
	if huge {
		var ns []Op
		for _, op := range sc.Setup {
			if op.K == OpNewWatcher {
				ns = append(ns, Op{K: OpCreate, P: "e/nlA"}, Op{K: OpCreate, P: "e/nlB"})
			}
			ns = append(ns, op)
		}
		sc.Setup = append(ns, Op{K: OpAdd, P: "e/nlA"}, Op{K: OpAdd, P: "e/nlB"})
		sc.Cfg.Weights = map[string]float64{"reader": 0.001, "consumer": 1}
		sc.Cfg.QueueLimit = 0
		sc.Cfg.MaxSteps = 400000
	}
	for c := 0; c < nclients; c++ {
		var ops []Op
		if huge && c == 0 {
			for i, nb := 0, 4100+g.r.Intn(300); i < nb; i++ {
				ops = append(ops, Op{K: OpWrite, P: []string{"e/nlA", "e/nlB"}[i%2], N: 1})
			}
			ops = append(ops, Op{K: OpQuiesce})
		}
		for k := 1 + g.r.Intn(5); k > 0; k-- {
			ops = append(ops, []Op{{K: OpWatchList}, {K: OpAdd, P: "e"}, {K: OpRemove, P: "d"}, {K: OpAdd, P: "d"}, {K: OpRemove, P: "d/f"}, {K: OpAdd, P: "d/g"}, {K: OpYield}}[g.r.Intn(7)])
		}
		if g.chance(0.6) {
			for k := 1 + g.r.Intn(3); k > 0; k-- {
				ops = append(ops, Op{K: OpClose})
			}
		}
		sc.Tasks = append(sc.Tasks, TaskScript{Name: fmt.Sprintf("client%d", c), Role: "client", Ops: ops})
	}
	return sc
}

// ---------------------------------------------------------------------------
// C07: concurrent API use

func genConc(prop string, seed uint64, run int, tier string) *Scenario {
	g := newGen(seed)
	sc := &Scenario{Prop: prop, Family: "concurrent", Seed: seed, Run: run}
	g.swarm(&sc.Cfg)
	if g.chance(0.5) {
		sc.Cfg.Policy, sc.Cfg.PCTDepth = "pct", 1+g.r.Intn(3)
	}
	setup := []Op{{K: OpMkdir, P: "c"}, {K: OpMkdir, P: "c/d1"}, {K: OpMkdir, P: "c/d2"}, {K: OpCreate, P: "c/f"}, {K: OpSymlink, P: "c/alias", P2: "d1"},
		{K: OpCreate, P: "c/d1/x"}, {K: OpNewWatcher, N: []int{-1, 0, 8}[g.r.Intn(3)]}}
	paths := []string{"c/d1", "c/d2", "c/f", "c/alias"}
	for _, p := range paths[:3] {
		if g.chance(0.6) {
			setup = append(setup, Op{K: OpAdd, P: p})
		}
	}
	sc.Setup = setup
	if g.chance(0.2) {
		// consumer pacing, with a kernel queue that overflows: an error is waiting on Errors while the calls run
		sc.Cfg.QueueLimit = 2 + g.r.Intn(10)
		sc.Cfg.Consumers = []ConsumerCfg{{Mode: []string{"both", "events", "none", "stop"}[g.r.Intn(4)], StopN: g.r.Intn(4)}}
	}
	nclients := 2 + g.r.Intn(3)
	closer := -1
	if g.chance(0.3) {
		closer = g.r.Intn(nclients)
	}
	for c := 0; c < nclients; c++ {
		var ops []Op
		for k := 2 + g.r.Intn(5); k > 0; k-- {
			p := paths[g.r.Intn(len(paths))]
			ops = append(ops, []Op{{K: OpAdd, P: p}, {K: OpRemove, P: p}, {K: OpWatchList}, {K: OpAdd, P: p}, {K: OpRemove, P: p}}[g.r.Intn(5)])
		}
		if c == closer {
			ops = append(ops, Op{K: OpClose})
		}
		sc.Tasks = append(sc.Tasks, TaskScript{Name: fmt.Sprintf("client%d", c), Role: "client", Ops: ops})
	}
	second := g.chance(0.4)
	for wt := 0; wt < 1+g.r.Intn(2); wt++ {
		var ops []Op
		for k := 2 + g.r.Intn(8); k > 0; k-- {
			d := []string{"c/d1", "c/d2"}[g.r.Intn(2)]
			n := fmt.Sprintf("%s/w%d_%d", d, wt, k)
			ops = append(ops, []Op{{K: OpCreate, P: n}, {K: OpWrite, P: "c/d1/x", N: 1}, {K: OpRename, P: n, P2: n + "r"}, {K: OpUnlink, P: n + "r"}, {K: OpChmod, P: "c/f", N: 0o600}}[g.r.Intn(5)])
			if second && g.chance(0.25) {
				// the watched paths themselves
				ops = append(ops, []Op{{K: OpUnlink, P: "c/f"}, {K: OpCreate, P: "c/f"}, {K: OpRename, P: "c/d2", P2: "c/d2moved"}, {K: OpMkdir, P: "c/d2"}}[g.r.Intn(4)])
			}
		}
		sc.Tasks = append(sc.Tasks, TaskScript{Name: fmt.Sprintf("world%d", wt), Role: "world", Ops: ops})
	}
	return sc
}

// ---------------------------------------------------------------------------
// C14: independence from buffering and from other Watchers

func genMulti(prop string, seed uint64, run int, tier string) *Scenario {
	g := newGen(seed)
	sc := &Scenario{Prop: prop, Family: "multi", Seed: seed, Run: run}
	g.swarm(&sc.Cfg)
	sc.Cfg.Coalesce = false
	sc.Cfg.Lagfree = g.chance(0.3)
	maxW := 4
	if tier == "thorough" {
		maxW = 6
	}
	nsame := 1 + g.r.Intn(maxW)
	nby := g.r.Intn(3)
	setup := []Op{{K: OpMkdir, P: "m"}, {K: OpMkdir, P: "m2"}, {K: OpCreate, P: "m/a"}, {K: OpCreate, P: "m/b"}, {K: OpMkdir, P: "out"}}
	g.kind["m"], g.kind["m2"], g.kind["m/a"], g.kind["m/b"], g.kind["out"] = 'd', 'd', 'f', 'f', 'd'
	sizes := []int{-1, 0, 1, 2, 4, 8, 16, 64, 256, 1024, 4096, 16384, 65536}
	for i := 0; i < nsame; i++ {
		setup = append(setup, Op{K: OpNewWatcher, N: sizes[g.r.Intn(len(sizes))]})
		cm := ConsumerCfg{Mode: "both"}
		if g.chance(0.2) {
			cm = ConsumerCfg{Mode: "none"} // no consumer: a buffered Watcher absorbs up to its capacity
		}
		sc.Cfg.Consumers = append(sc.Cfg.Consumers, cm)
	}
	for i := 0; i < nsame; i++ {
		setup = append(setup, Op{K: OpAdd, W: i, P: "m"}, Op{K: OpAdd, W: i, P: "m2"}, Op{K: OpAdd, W: i, P: "m/a"})
	}
	for i := 0; i < nby; i++ {
		setup = append(setup, Op{K: OpNewWatcher, N: sizes[g.r.Intn(len(sizes))]})
		sc.Cfg.Consumers = append(sc.Cfg.Consumers, ConsumerCfg{Mode: "both"})
	}
	sc.Setup = setup
	var w []Op
	for k := 3 + g.r.Intn(20); k > 0; k-- {
		w = append(w, g.worldOp([]string{"m", "m2"}, []int{0, 1, 2}, defaultWorld)...)
	}
	if !sc.Cfg.Lagfree && g.chance(0.15) {
		for i, n := 0, 70+g.r.Intn(200); i < n; i++ {
			w = append(w, Op{K: OpCreate, P: fmt.Sprintf("m/burst%d", i)})
		}
		sc.Cfg.MaxSteps = 90000
	}
	if sc.Cfg.Lagfree {
		sc.Tasks = []TaskScript{{Name: "seq", Role: "world", Ops: w}}
		return sc
	}
	sc.Tasks = []TaskScript{{Name: "world0", Role: "world", Ops: w}}
	for i := 0; i < nby; i++ {
		var ops []Op
		wi := nsame + i
		for k := 1 + g.r.Intn(6); k > 0; k-- {
			ops = append(ops, []Op{{K: OpAdd, W: wi, P: "m"}, {K: OpRemove, W: wi, P: "m"}, {K: OpAdd, W: wi, P: "m/a"}, {K: OpWatchList, W: wi}, {K: OpAdd, W: wi, P: "m2"}}[g.r.Intn(5)])
		}
		if g.chance(0.5) {
			ops = append(ops, Op{K: OpClose, W: wi})
		}
		sc.Tasks = append(sc.Tasks, TaskScript{Name: fmt.Sprintf("bystander%d", i), Role: "client", Ops: ops})
	}
	return sc
}

// ---------------------------------------------------------------------------
// C19: recursive watches

func genRecurse(prop string, seed uint64, run int, tier string) *Scenario {
	g := newGen(seed)
	sc := &Scenario{Prop: prop, Family: "recursive", Seed: seed, Run: run}
	g.swarm(&sc.Cfg)
	sc.Cfg.Recurse = true
	sc.Cfg.Lagfree = true // directories are created one level at a time, each followed by delivery of its Create
	sc.Cfg.Coalesce = false
	names := []string{"dir1", "dir10", "dir100", "sub", "sub2", "a", "ab", "abc", "..."}
	setup := []Op{{K: OpMkdir, P: "r1"}, {K: OpMkdir, P: "r2"}}
	dirs := map[string][]string{"r1": {"r1"}, "r2": {"r2"}}
	tworoots := g.chance(0.5)
	roots := []string{"r1"}
	if tworoots {
		roots = append(roots, "r2")
	}
	// a pre-existing tree
	for _, r := range roots {
		for k := g.r.Intn(4); k > 0; k-- {
			parent := dirs[r][g.r.Intn(len(dirs[r]))]
			if strings.Count(parent, "/") >= 3 {
				continue
			}
			n := parent + "/" + names[g.r.Intn(len(names))]
			if !contains(dirs[r], n) {
				dirs[r] = append(dirs[r], n)
				setup = append(setup, Op{K: OpMkdir, P: n})
			}
		}
	}
	setup = append(setup, Op{K: OpNewWatcher, N: bufSizes[g.r.Intn(len(bufSizes))]})
	for _, r := range roots {
		setup = append(setup, Op{K: OpAdd, P: r, Rec: true})
	}
	sc.Setup = setup
	var ops []Op
	removed := ""
	id := 0
	touched := map[string]bool{} // directories that (may) hold entries: not a target for an overwriting rename
	for k := 4 + g.r.Intn(20); k > 0; k-- {
		r := roots[g.r.Intn(len(roots))]
		ds := dirs[r]
		d := ds[g.r.Intn(len(ds))]
		id++
		switch g.r.Intn(9) {
		case 0, 1: // new directory, one level at a time
			if strings.Count(d, "/") < 3 {
				n := d + "/" + names[g.r.Intn(len(names))]
				if !contains(ds, n) {
					dirs[r] = append(dirs[r], n)
					touched[d] = true
					ops = append(ops, Op{K: OpMkdir, P: n})
				}
			}
		case 2, 3: // file operations at every depth
			f := fmt.Sprintf("%s/file%d", d, id)
			touched[d] = true
			ops = append(ops, Op{K: OpCreate, P: f}, Op{K: OpWrite, P: f, N: 1})
			if g.chance(0.5) {
				ops = append(ops, Op{K: OpRename, P: f, P2: f + "r"}, Op{K: OpUnlink, P: f + "r"})
			}
		case 4, 5: // rename an inner directory within the tree
			if d != r {
				parent := d[:strings.LastIndex(d, "/")]
				to := parent + "/" + names[g.r.Intn(len(names))]
				if g.chance(0.3) {
					to = fmt.Sprintf("%s/mv%d", parent, id)
				}
				if contains(ds, to) && to != d && !strings.HasPrefix(to, d+"/") && !strings.HasPrefix(d, to+"/") && !touched[to] && g.chance(0.7) {
					// rename(2) onto an existing, empty, watched sibling directory: its name and
					// its place in the tables pass to another watch (seed C19-h)
					leaf := true
					for _, x := range ds {
						if strings.HasPrefix(x, to+"/") {
							leaf = false
						}
					}
					if leaf {
						ops = append(ops, Op{K: OpRename, P: d, P2: to})
						var nd []string
						for _, x := range ds {
							if x == to {
								continue
							}
							if x == d {
								nd = append(nd, to)
							} else if strings.HasPrefix(x, d+"/") {
								nd = append(nd, to+x[len(d):])
								touched[to] = true
							} else {
								nd = append(nd, x)
							}
						}
						touched[to] = touched[to] || touched[d]
						dirs[r] = nd
						if tworoots && removed == "" && g.chance(0.4) {
							removed = r
							ops = append(ops, Op{K: OpRemove, P: r, Rec: true})
						}
					}
				} else if !contains(ds, to) {
					touched[to] = touched[d]
					if g.chance(0.25) {
						// two renames in a row, the reader not yet having seen the first
						mid := fmt.Sprintf("%s/mid%d", parent, id)
						ops = append(ops, Op{K: OpRename, P: d, P2: mid, NQ: true}, Op{K: OpRename, P: mid, P2: to})
					} else {
						ops = append(ops, Op{K: OpRename, P: d, P2: to})
					}
					var nd []string
					for _, x := range ds {
						if x == d {
							nd = append(nd, to)
						} else if strings.HasPrefix(x, d+"/") {
							nd = append(nd, to+x[len(d):])
						} else {
							nd = append(nd, x)
						}
					}
					dirs[r] = nd
				}
			}
		case 6:
			ops = append(ops, Op{K: OpChmod, P: d, N: 0o750})
		case 7:
			if tworoots && removed == "" && g.chance(0.4) {
				removed = r
				ops = append(ops, Op{K: OpRemove, P: r, Rec: true})
			} else {
				ops = append(ops, Op{K: OpWatchList})
			}
		case 8: // remove an empty leaf directory
			if d != r {
				leaf := true
				for _, x := range ds {
					if strings.HasPrefix(x, d+"/") {
						leaf = false
					}
				}
				if leaf {
					if removed == "" && g.chance(0.3) {
						// ... and the recursive watch is removed before the reader has seen
						// the directory go (inotify_rm_watch of that descriptor fails)
						removed = r
						ops = append(ops, Op{K: OpRmRF, P: d, NQ: true}, Op{K: OpRemove, P: r, Rec: true})
					} else {
						ops = append(ops, Op{K: OpRmRF, P: d})
					}
					var nd []string
					for _, x := range ds {
						if x != d {
							nd = append(nd, x)
						}
					}
					dirs[r] = nd
				}
			}
		}
	}
	// final probes: a file in every directory of every root
	for _, r := range roots {
		for _, d := range dirs[r] {
			id++
			ops = append(ops, Op{K: OpCreate, P: fmt.Sprintf("%s/probe%d", d, id)})
		}
	}
	sc.Tasks = []TaskScript{{Name: "seq", Role: "world", Ops: ops}}
	return sc
}

// ---------------------------------------------------------------------------
// C13: creating and closing watchers in a loop keeps descriptor and goroutine counts flat

func genChurn(prop string, seed uint64, run int, tier string, big bool) *Scenario {
	g := newGen(seed)
	sc := &Scenario{Prop: prop, Family: "churn", Seed: seed, Run: run}
	g.swarm(&sc.Cfg)
	n := 10 + g.r.Intn(50)
	if big {
		n = 2000
	}
	if g.chance(0.5) {
		sc.Cfg.FaultInit = 3 + g.r.Intn(6)
	}
	sc.Cfg.MaxSteps = 4000 + n*120
	sc.Setup = []Op{{K: OpMkdir, P: "d"}, {K: OpCreate, P: "d/f"}}
	var mk, w []Op
	for k := 0; k < n; k++ {
		mk = append(mk, Op{K: OpNewWatcher, N: []int{-1, 0, 3}[g.r.Intn(3)]})
		if g.chance(0.6) {
			mk = append(mk, Op{K: OpAdd, W: k, P: "d"})
		}
		if g.chance(0.3) {
			mk = append(mk, Op{K: OpAdd, W: k, P: "d/f"})
		}
		if g.chance(0.2) {
			mk = append(mk, Op{K: OpYield})
		}
		mk = append(mk, Op{K: OpClose, W: k})
	}
	for k := 0; k < n/2+1; k++ {
		w = append(w, []Op{{K: OpWrite, P: "d/f", N: 1}, {K: OpCreate, P: fmt.Sprintf("d/c%d", k)}, {K: OpChmod, P: "d/f", N: 0o640}}[g.r.Intn(3)])
	}
	sc.Tasks = []TaskScript{{Name: "maker", Role: "client", Ops: mk}, {Name: "world0", Role: "world", Ops: w}}
	return sc
}

// ---------------------------------------------------------------------------
// C04, thorough tier: every sequence of length <= 5 over a 15-symbol alphabet
// (Add/Remove of six core paths, WatchList, delete / recreate / re-point),
// lag-free. Index i selects the sequence (mixed radix); nil when exhausted.

var enumPaths = []string{"u/f", "u/d", "u/lf", "u/ld", "u/h", "u/missing"}

const enumSymbols = 15
const enumMaxLen = 5

func enumTotal() int {
	n, p := 0, 1
	for l := 1; l <= enumMaxLen; l++ {
		p *= enumSymbols
		n += p
	}
	return n
}

func genAPIEnum(prop string, seed uint64, run, idx int) *Scenario {
	i := idx
	l, p := 1, enumSymbols
	for i >= p {
		i -= p
		l++
		p *= enumSymbols
		if l > enumMaxLen {
			return nil
		}
	}
	sc := &Scenario{Prop: prop, Family: "api-enum", Seed: seed, Run: run}
	sc.Cfg = Cfg{Policy: "fifo", MaxSteps: 20000, Lagfree: true, BatchMode: 2}
	sc.Setup = append(apiSetup(), Op{K: OpNewWatcher, N: -1})
	var ops []Op
	for k := 0; k < l; k++ {
		d := i % enumSymbols
		i /= enumSymbols
		switch {
		case d < 6:
			ops = append(ops, Op{K: OpAdd, P: enumPaths[d]})
		case d < 12:
			ops = append(ops, Op{K: OpRemove, P: enumPaths[d-6]})
		case d == 12:
			ops = append(ops, Op{K: OpWatchList})
		case d == 13:
			ops = append(ops, Op{K: OpUnlink, P: "u/f"}, Op{K: OpCreate, P: "u/f"})
		default:
			ops = append(ops, Op{K: OpUnlink, P: "u/lf"}, Op{K: OpSymlink, P: "u/lf", P2: "g"})
		}
	}
	ops = append(ops, Op{K: OpWrite, P: "u/f", N: 1}, Op{K: OpWrite, P: "u/g", N: 1}, Op{K: OpCreate, P: "u/d/last"})
	sc.Tasks = []TaskScript{{Name: "seq", Role: "client", Ops: ops}}
	return sc
}

// ---------------------------------------------------------------------------
// C14: Watchers of different buffer sizes created at the same time by several
// goroutines (each gets the capacity it asked for, NewWatcher the default)

func genCreate(prop string, seed uint64, run int) *Scenario {
	g := newGen(seed)
	sc := &Scenario{Prop: prop, Family: "create", Seed: seed, Run: run}
	g.swarm(&sc.Cfg)
	sc.Setup = []Op{{K: OpMkdir, P: "m"}}
	for t := 0; t < 2+g.r.Intn(3); t++ {
		var ops []Op
		for k := 1 + g.r.Intn(3); k > 0; k-- {
			ops = append(ops, Op{K: OpNewWatcher, N: []int{-1, -1, 0, 1, 3, 16, 64}[g.r.Intn(7)]})
			if g.chance(0.3) {
				ops = append(ops, Op{K: OpYield})
			}
		}
		sc.Tasks = append(sc.Tasks, TaskScript{Name: fmt.Sprintf("maker%d", t), Role: "client", Ops: ops})
	}
	return sc
}

// ---------------------------------------------------------------------------
// A watched directory whose absolute path is close to PATH_MAX: the names of
// the events of its entries are longer than any path a system call accepts.

func genDeep(prop string, seed uint64, run int) *Scenario {
	g := newGen(seed)
	sc := &Scenario{Prop: prop, Family: "deep", Seed: seed, Run: run}
	g.swarm(&sc.Cfg)
	sc.Cfg.Lagfree = g.chance(0.5)
	sc.Cfg.Coalesce = false
	sc.Setup = []Op{
		{K: OpDeepMk, N: 3800 + g.r.Intn(290)},
		{K: OpCreate, P: "@deep/old"},
		{K: OpNewWatcher, N: bufSizes[g.r.Intn(len(bufSizes))]},
		{K: OpAdd, P: "@deep", Abs: true},
	}
	var ops []Op
	var live []string
	for i := 2 + g.r.Intn(10); i > 0; i-- {
		n := nameLens[g.r.Intn(len(nameLens))]
		name := fmt.Sprintf("e%d_", i)
		for len(name) < n {
			name += "x"
		}
		name = name[:max(n, len(fmt.Sprintf("e%d_", i)))]
		p := "@deep/" + name
		switch g.r.Intn(6) {
		case 0, 1, 2:
			ops = append(ops, Op{K: OpCreate, P: p}, Op{K: OpWrite, P: p, N: 1})
			live = append(live, p)
		case 3:
			if len(live) > 0 {
				q := live[g.r.Intn(len(live))]
				ops = append(ops, Op{K: OpChmod, P: q, N: 0o640})
			}
		case 4:
			if len(live) > 0 {
				k := g.r.Intn(len(live))
				ops = append(ops, Op{K: OpRename, P: live[k], P2: p})
				live[k] = p
			}
		case 5:
			if len(live) > 0 {
				k := g.r.Intn(len(live))
				ops = append(ops, Op{K: OpUnlink, P: live[k]})
				live = append(live[:k], live[k+1:]...)
			}
		}
	}
	ops = append(ops, Op{K: OpWrite, P: "@deep/old", N: 1})
	sc.Tasks = []TaskScript{{Name: "seq", Role: "world", Ops: ops}}
	return sc
}
