//go:build !kq

package main

// The reference model M: a small sequential specification of one Watcher,
// written from the documentation and the property statements. It knows nothing
// about the implementation's tables; watches are keyed by inode, the kernel's
// records are translated with the documented mapping.

import (
	"fmt"
	"path/filepath"
	"sort"
	"strings"

	"golang.org/x/sys/unix"
	"verifsim/sinot"
)

type mWatch struct {
	Ino      uint64
	Spelling string
	Ops      uint32
	Wd       int32
	Recurse  bool // part of a recursive watch
	Root     bool // the root of a recursive watch (listed by WatchList)
	Inc      int  // incarnation id (index into Model.Incs)
	// ParentRemoved: a watched directory has already reported Remove under
	// exactly this watch's path (the entry was removed there, the file itself
	// lives on: an open descriptor, or - for a directory - an unlinked entry
	// that is still open)
	ParentRemoved bool
	Victim        bool // a directory below a recursive watch that another directory was renamed onto: the library has replaced its watch when its own last records (ATTRIB, DELETE_SELF) arrive; reporting them is optional
}

// Incarnation is the life of one model watch, for Stage A.
type Incarnation struct {
	Ino       uint64
	Wd        int32
	Ops       uint32
	Spelling  string
	StartCall int // index into H
	EndCall   int // -1 if not ended by a call
	EndStep   int // step of the kernel record that ended it (0 = none)
	Recurse   bool
}

type Model struct {
	Closed   bool
	W        []mWatch
	Cookies  map[uint32]string
	Reported map[string]int
	Incs     []Incarnation
	Recurse  bool // the recursive switch is on
	// FindAdd looks up, in the kernel-facing call log, the add_watch the reader
	// made for a directory that appeared inside a recursive watch.
	FindAdd func(path string, afterStep int) (int32, uint64, bool)
	// ParentReported says whether, according to the ground truth, directory
	// inode dir was told about the removal or replacement of an entry naming
	// inode ino at or before step upto.
	ParentReported func(dir uint64, ino uint64, upto int) bool
	// Uncertain says whether a record of watch wd was dropped by a queue
	// overflow at or before step upto (the announced, permitted loss): what the
	// Watcher believes about that watch may then legitimately lag reality.
	Uncertain func(wd int32, upto int) bool
}

type MEvent struct {
	Name     string
	Op       uint32
	From     string
	Optional bool
}

func (e MEvent) String() string {
	s := fmt.Sprintf("%s %q", opString(e.Op), e.Name)
	if e.From != "" {
		s += fmt.Sprintf(" <- %q", e.From)
	}
	if e.Optional {
		s += " (optional)"
	}
	return s
}

func newModel(recurse bool) *Model {
	return &Model{Cookies: map[uint32]string{}, Reported: map[string]int{}, Recurse: recurse}
}

func (m *Model) clone() *Model {
	n := &Model{Closed: m.Closed, Recurse: m.Recurse, FindAdd: m.FindAdd, ParentReported: m.ParentReported, Uncertain: m.Uncertain}
	n.W = append([]mWatch(nil), m.W...)
	n.Cookies = make(map[uint32]string, len(m.Cookies))
	for k, v := range m.Cookies {
		n.Cookies[k] = v
	}
	n.Reported = make(map[string]int, len(m.Reported))
	for k, v := range m.Reported {
		n.Reported[k] = v
	}
	n.Incs = append([]Incarnation(nil), m.Incs...)
	return n
}

// key is a canonical rendering of the state for memoisation.
func (m *Model) key() string {
	var b strings.Builder
	if m.Closed {
		b.WriteString("C;")
	}
	ws := append([]mWatch(nil), m.W...)
	sort.Slice(ws, func(i, j int) bool { return ws[i].Spelling < ws[j].Spelling })
	for _, w := range ws {
		fmt.Fprintf(&b, "%d,%s,%d,%d,%v;", w.Ino, w.Spelling, w.Ops, w.Wd, w.Recurse)
	}
	ck := make([]int, 0, len(m.Cookies))
	for k := range m.Cookies {
		ck = append(ck, int(k))
	}
	sort.Ints(ck)
	for _, k := range ck {
		fmt.Fprintf(&b, "c%d=%s;", k, m.Cookies[uint32(k)])
	}
	rk := make([]string, 0, len(m.Reported))
	for k, v := range m.Reported {
		if v > 0 {
			rk = append(rk, fmt.Sprintf("%s=%d", k, v))
		}
	}
	sort.Strings(rk)
	b.WriteString(strings.Join(rk, ";"))
	for _, inc := range m.Incs {
		fmt.Fprintf(&b, "|%d,%d,%d,%d,%d", inc.Ino, inc.Wd, inc.StartCall, inc.EndCall, inc.EndStep)
	}
	return b.String()
}

func (m *Model) byWd(wd int32) int {
	for i := range m.W {
		if m.W[i].Wd == wd {
			return i
		}
	}
	return -1
}

func (m *Model) byIno(ino uint64) int {
	for i := range m.W {
		if m.W[i].Ino == ino {
			return i
		}
	}
	return -1
}

func (m *Model) bySpelling(s string) int {
	for i := range m.W {
		if m.W[i].Spelling == s {
			return i
		}
	}
	return -1
}

func (m *Model) end(i int, call int, step int) {
	inc := &m.Incs[m.W[i].Inc]
	inc.EndCall = call
	inc.EndStep = step
	m.W = append(m.W[:i:i], m.W[i+1:]...)
}

func (m *Model) start(w mWatch, call int) {
	w.Inc = len(m.Incs)
	m.Incs = append(m.Incs, Incarnation{Ino: w.Ino, Wd: w.Wd, Ops: w.Ops, Spelling: w.Spelling, StartCall: call, EndCall: -1, Recurse: w.Recurse})
	m.W = append(m.W, w)
}

// translate is the documented mapping of native flags to operations.
func translate(mask uint32) uint32 {
	var op uint32
	if mask&(unix.IN_CREATE|unix.IN_MOVED_TO) != 0 {
		op |= mCreate
	}
	if mask&(unix.IN_DELETE|unix.IN_DELETE_SELF) != 0 {
		op |= mRemove
	}
	if mask&unix.IN_MODIFY != 0 {
		op |= mWrite
	}
	if mask&(unix.IN_MOVED_FROM|unix.IN_MOVE_SELF) != 0 {
		op |= mRename
	}
	if mask&unix.IN_ATTRIB != 0 {
		op |= mChmod
	}
	if mask&unix.IN_OPEN != 0 {
		op |= mOpen
	}
	if mask&unix.IN_ACCESS != 0 {
		op |= mRead
	}
	if mask&unix.IN_CLOSE_WRITE != 0 {
		op |= mCloseWrite
	}
	if mask&unix.IN_CLOSE_NOWRITE != 0 {
		op |= mCloseRead
	}
	return op
}

// nativeBits returns the native flags that must be observable for the
// requested operations (Stage A). IN_MOVED_TO is required only when both
// Create and Rename were requested (the weaker reading).
func nativeBits(ops uint32) uint32 {
	var b uint32
	if ops&mCreate != 0 {
		b |= unix.IN_CREATE
	}
	if ops&mCreate != 0 && ops&mRename != 0 {
		b |= unix.IN_MOVED_TO
	}
	if ops&mWrite != 0 {
		b |= unix.IN_MODIFY
	}
	if ops&mRemove != 0 {
		b |= unix.IN_DELETE | unix.IN_DELETE_SELF
	}
	if ops&mRename != 0 {
		b |= unix.IN_MOVED_FROM | unix.IN_MOVE_SELF
	}
	if ops&mChmod != 0 {
		b |= unix.IN_ATTRIB
	}
	if ops&mOpen != 0 {
		b |= unix.IN_OPEN
	}
	if ops&mRead != 0 {
		b |= unix.IN_ACCESS
	}
	if ops&mCloseWrite != 0 {
		b |= unix.IN_CLOSE_WRITE
	}
	if ops&mCloseRead != 0 {
		b |= unix.IN_CLOSE_NOWRITE
	}
	return b
}

// Feed applies one kernel record (in the order the reader received them) and
// returns the events the Watcher must deliver for it.
func (m *Model) Feed(r *sinot.Record) []MEvent {
	// A closed Watcher may go on delivering what its reader had in hand until
	// the channels are closed (the search treats those events as droppable), so
	// translation continues after Close.
	if r.Mask&unix.IN_Q_OVERFLOW != 0 {
		return nil // reported on Errors; counted separately
	}
	i := m.byWd(r.Wd)
	if i < 0 {
		return nil
	}
	w := m.W[i]
	if r.Mask&(unix.IN_IGNORED|unix.IN_UNMOUNT) != 0 {
		m.end(i, -1, r.Step)
		return nil
	}
	name := w.Spelling
	if r.Name != "" {
		name += "/" + r.Name
	}
	ev := MEvent{Name: name, Op: translate(r.Mask)}
	if r.Mask&unix.IN_DELETE_SELF != 0 {
		m.end(i, -1, r.Step)
		// "reporting Remove unless the watched parent directory already did":
		// optional iff the kernel told some watched directory about the removal
		// or replacement of an entry of this file (under whatever name: the
		// statement speaks of the file).
		if m.Uncertain != nil && m.Uncertain(r.Wd, r.Step) {
			ev.Optional = true
		}
		if w.ParentRemoved {
			ev.Optional = true
		}
		if m.ParentReported != nil {
			for j := range m.W {
				if m.ParentReported(m.W[j].Ino, w.Ino, r.Step) {
					ev.Optional = true
					break
				}
			}
		}
	}
	if r.Mask&unix.IN_DELETE != 0 && r.Name != "" && ev.Op&mRemove != 0 {
		for k := range m.W {
			if k != i && filepath.Clean(m.W[k].Spelling) == filepath.Clean(name) {
				m.W[k].ParentRemoved = true
			}
		}
	}
	if r.Mask&unix.IN_MOVE_SELF != 0 {
		if w.Recurse {
			// Documented limitation of the unfinished recursive feature: the
			// directory's own watch stays silent, the parent reports the move.
			return nil
		}
		if j := m.byWd(r.Wd); j >= 0 {
			m.end(j, -1, r.Step)
		}
	}
	if r.Cookie != 0 {
		if r.Mask&unix.IN_MOVED_FROM != 0 {
			m.Cookies[r.Cookie] = name
		} else if r.Mask&unix.IN_MOVED_TO != 0 {
			ev.From = m.Cookies[r.Cookie]
		}
	}
	if w.Recurse && r.Mask&unix.IN_ISDIR != 0 && r.Name != "" && r.Mask&(unix.IN_CREATE|unix.IN_MOVED_TO) != 0 {
		if ev.From != "" {
			// rename(2) onto an existing (empty) covered directory: that one is gone,
			// and its place in the tables passes to the directory that was moved
			for k := range m.W {
				if m.W[k].Recurse && m.W[k].Spelling == name {
					m.W[k].Victim = true
				}
			}
			// a directory moved within the tree: it and its descendants are now
			// reported under the new location
			for k := range m.W {
				sp := m.W[k].Spelling
				if sp == ev.From {
					m.W[k].Spelling = name
				} else if isBelow(sp, ev.From) {
					m.W[k].Spelling = name + sp[len(ev.From):]
				}
			}
		} else if m.FindAdd != nil {
			// a new directory: covered from now on
			if wd, ino, ok := m.FindAdd(name, r.FeedStep); ok && m.byWd(wd) < 0 {
				m.start(mWatch{Ino: ino, Spelling: name, Ops: w.Ops, Wd: wd, Recurse: true}, -1)
			}
		}
	}
	if ev.Op == 0 {
		return nil
	}
	if w.Victim && r.Name == "" {
		ev.Optional = true
	}
	return []MEvent{ev}
}

// ApplyResult describes how an API call compares with the model.
type ApplyResult struct {
	OK     bool
	Reason string
	Relax  string // name of the relaxation used, if any
}

func okRes() ApplyResult { return ApplyResult{OK: true} }

func bad(format string, a ...interface{}) ApplyResult {
	return ApplyResult{Reason: fmt.Sprintf(format, a...)}
}

// Apply linearises one API call here and compares its result.
// closeOverlap: a Close call of the same watcher overlaps this call.
func (m *Model) Apply(c *APICall, closeOverlap bool) ApplyResult {
	switch c.Kind {
	case OpClose:
		m.Closed = true
		if c.Ret >= 0 && c.Class != "" {
			return bad("Close returned an error: %s", c.Err)
		}
		for i := range m.Incs {
			if m.Incs[i].EndCall == -1 && m.Incs[i].EndStep == 0 {
				m.Incs[i].EndCall = c.Idx
			}
		}
		return okRes()
	case OpWatchList:
		if c.Ret < 0 {
			return okRes()
		}
		if m.Closed {
			if len(c.List) == 0 {
				return okRes()
			}
			// A WatchList that was already running when Close was called may
			// still report the table as it is when it gets the lock (records
			// handled after the close mark keep changing it).
			if closeOverlap {
				var cur []string
				for _, w := range m.W {
					if !w.Recurse || w.Root {
						cur = append(cur, w.Spelling)
					}
				}
				sort.Strings(cur)
				if strings.Join(cur, "\x00") == strings.Join(c.List, "\x00") {
					return ApplyResult{OK: true, Relax: "watchlist-overlapping-close"}
				}
			}
			return bad("WatchList after Close returned %q, want nil", c.List)
		}
		var want, all []string
		for _, w := range m.W {
			if !w.Recurse || w.Root {
				want = append(want, w.Spelling)
			}
			all = append(all, w.Spelling)
		}
		sort.Strings(want)
		sort.Strings(all)
		got := strings.Join(c.List, "\x00")
		if got == strings.Join(want, "\x00") && len(want) == len(c.List) {
			return okRes()
		}
		// with recursive watches the documentation does not say whether the
		// directories below a root are listed: both readings are accepted
		if m.Recurse && got == strings.Join(all, "\x00") && len(all) == len(c.List) {
			return ApplyResult{OK: true, Relax: "watchlist-lists-recursive-subdirectories"}
		}
		return bad("WatchList = %q, want %q", c.List, want)
		return okRes()
	case OpRemove:
		if m.Closed {
			if c.Ret >= 0 && c.Class != "" {
				return bad("Remove after Close returned %q, want nil", c.Err)
			}
			return okRes()
		}
		p := cleanPath(c.Path)
		if c.Rec {
			p = cleanPath(strings.TrimSuffix(c.Path, "/..."))
		}
		i := m.bySpelling(p)
		if i < 0 {
			if c.Ret >= 0 && c.Class != "ErrNonExistentWatch" {
				return bad("Remove(%q) of an unlisted path returned %q, want ErrNonExistentWatch", c.Path, c.Err)
			}
			return okRes()
		}
		if m.W[i].Recurse && m.W[i].Root != c.Rec && m.Recurse {
			// removing a recursive root without /... or a plain watch with /...: not quantified over
			return ApplyResult{OK: true, Relax: "recursive-remove-form"}
		}
		res := okRes()
		if c.Ret >= 0 && c.Class != "" {
			// The only tolerated failure: the kernel had already dropped the
			// watch (natural EINVAL from inotify_rm_watch).
			nat := false
			for _, sc := range c.Calls {
				if sc.Kind == "rm" && sc.Errno == unix.EINVAL {
					nat = true
				}
			}
			switch {
			case c.Class == "EINVAL" && nat:
				res.Relax = "remove-einval-kernel-watch-already-gone"
			default:
				return bad("Remove(%q) of a listed path failed: %s", c.Path, c.Err)
			}
		}
		root := m.W[i]
		m.end(i, c.Idx, 0)
		if root.Recurse && root.Root {
			// the whole tree goes: every sub-watch whose spelling is below the root
			for j := len(m.W) - 1; j >= 0; j-- {
				if m.W[j].Recurse && !m.W[j].Root && isBelow(m.W[j].Spelling, root.Spelling) {
					m.end(j, c.Idx, 0)
				}
			}
		}
		return res
	case OpAdd:
		if m.Closed {
			if c.Ret >= 0 && c.Class != "ErrClosed" {
				return bad("Add after Close returned %q, want ErrClosed", c.Err)
			}
			return okRes()
		}
		return m.applyAdd(c, closeOverlap)
	}
	return okRes()
}

func isBelow(p, root string) bool {
	return len(p) > len(root) && strings.HasPrefix(p, root) && p[len(root)] == '/'
}

func (m *Model) applyAdd(c *APICall, closeOverlap bool) ApplyResult {
	p := cleanPath(c.Path)
	if c.Rec {
		p = cleanPath(strings.TrimSuffix(c.Path, "/..."))
	}
	forced := false
	var adds []sinot.Call
	for _, sc := range c.Calls {
		if sc.Kind == "add" {
			if sc.Forced {
				forced = true
			}
			if sc.Errno == 0 {
				adds = append(adds, sc)
			}
		}
	}
	resolvable := c.ResErrBefore == "" || c.InoAfter != 0
	naturalFail := false
	for _, sc := range c.Calls {
		if sc.Kind == "add" && cleanPath(sc.Path) == p {
			if sc.Errno == 0 {
				resolvable = true // the kernel resolved it in the step of the syscall
			} else if !sc.Forced {
				naturalFail = true // the kernel itself refused this very path
			}
		}
	}
	if c.Ret >= 0 && c.Class != "" {
		// failed Add: must leave the set untouched; legitimate if the path did
		// not resolve (before or after), a fault was injected, or Close overlaps
		if !forced && !naturalFail && c.ResErrBefore == "" && c.InoAfter != 0 {
			if c.Rec && !c.DirBefore {
				return okRes()
			}
			return bad("Add(%q) failed although the path resolves: %s", c.Path, c.Err)
		}
		return okRes()
	}
	if c.Ret < 0 && len(adds) == 0 {
		return okRes() // never got anywhere
	}
	if !resolvable {
		return bad("Add(%q) succeeded although the path does not resolve (%s)", c.Path, c.ResErrBefore)
	}
	ops := c.Ops
	if ops == 0 {
		ops = mDefaultOps
	}
	if c.Rec && m.Recurse {
		return m.applyAddRecursive(c, p, ops, adds)
	}
	// the inode the kernel bound: kernel truth from the observed add_watch on
	// the path the caller gave (its resolution in the step of the syscall is,
	// by definition, the filesystem state at the linearisation point)
	var ino uint64
	var wd int32 = -1
	for _, a := range adds {
		if a.Inode != 0 && cleanPath(a.Path) == p {
			ino, wd = a.Inode, int32(a.Wd)
		}
	}
	if ino == 0 {
		// no kernel watch was made for what the path names: the model still
		// records the watch (Stage A and the mark bijection will object)
		ino = c.InoAfter
		if ino == 0 {
			ino = c.InoBefore
		}
	}
	i, j := m.byIno(ino), m.bySpelling(p)
	if i >= 0 {
		// already watched, under this or another name: nothing changes – except
		// that a listed path which has come to name this (other) file gives up
		// the file it used to name
		if j >= 0 && j != i {
			m.end(j, c.Idx, 0)
		}
		return okRes()
	}
	if j >= 0 {
		// a listed path that has come to name a different file: the watch moves
		old := m.W[j]
		m.end(j, c.Idx, 0)
		m.start(mWatch{Ino: ino, Spelling: p, Ops: ops | old.Ops, Wd: wd}, c.Idx)
		return okRes()
	}
	m.start(mWatch{Ino: ino, Spelling: p, Ops: ops, Wd: wd}, c.Idx)
	return okRes()
}

func (m *Model) applyAddRecursive(c *APICall, p string, ops uint32, adds []sinot.Call) ApplyResult {
	// Every directory of the tree at the time of the call becomes a sub-watch;
	// the kernel-truth list of add_watch calls says which directories those were.
	for _, a := range adds {
		sp := cleanPath(a.Path)
		if a.Inode == 0 {
			continue
		}
		if i := m.byIno(a.Inode); i >= 0 {
			continue
		}
		m.start(mWatch{Ino: a.Inode, Spelling: sp, Ops: ops, Wd: int32(a.Wd), Recurse: true, Root: sp == p}, c.Idx)
	}
	return okRes()
}
