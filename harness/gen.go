package main

import (
	"fmt"
	"sort"
	"strings"

	"verifsim/ssim"
)

// gen is the scenario generator state: a rough prediction of the tree, good
// enough to produce mostly-valid operations (invalid ones are harmless: the
// oracles follow what the kernel actually did).
type gen struct {
	r      *ssim.RNG
	kind   map[string]byte // path → 'f' file, 'd' dir, 'l' symlink
	names  []string
	nextID int
	// hash-colliding sibling names (shape 6): pair in hand, which half comes next
	collPair, collHalf int
	listed             map[int]map[string]bool // watcher → spellings believed listed
	fdOpen             map[int]string
}

func newGen(seed uint64) *gen {
	return &gen{r: &ssim.RNG{S: seed}, kind: map[string]byte{}, listed: map[int]map[string]bool{}, fdOpen: map[int]string{}}
}

func (g *gen) pick(xs []string) string {
	if len(xs) == 0 {
		return ""
	}
	return xs[g.r.Intn(len(xs))]
}

func (g *gen) chance(p float64) bool { return g.r.Float() < p }

func (g *gen) paths(k byte) []string {
	var out []string
	for p, t := range g.kind {
		if t == k {
			out = append(out, p)
		}
	}
	sort.Strings(out)
	return out
}

func (g *gen) childrenOf(d string) []string {
	var out []string
	for p := range g.kind {
		if strings.HasPrefix(p, d+"/") && !strings.Contains(p[len(d)+1:], "/") {
			out = append(out, p)
		}
	}
	sort.Strings(out)
	return out
}

var nameLens = []int{1, 2, 7, 15, 16, 17, 31, 32, 33, 47, 48, 49, 63, 64, 65, 100, 127, 128, 129, 200, 239, 240, 241, 254, 255}

// freshName makes an entry name of a chosen shape.
func (g *gen) freshName(shape int) string {
	g.nextID++
	id := fmt.Sprintf("%d", g.nextID)
	switch shape {
	case 0: // short ascii
		return "f" + id
	case 1: // length classes around the 16-byte padding boundary
		n := nameLens[g.r.Intn(len(nameLens))]
		s := "n" + id + "_"
		for len(s) < n {
			k := g.r.Intn(26)
			s += "abcdefghijklmnopqrstuvwxyz"[k : k+1]
		}
		if len(s) > n {
			s = s[len(s)-n:]
			if s[0] == '.' || s[0] == '/' {
				s = "x" + s[1:]
			}
		}
		return s
	case 2: // spaces
		return "a b " + id
	case 3: // leading dot / dash
		if g.chance(0.5) {
			return "." + id + ".hidden"
		}
		return "-" + id + "-rf"
	case 4: // multi-byte UTF-8
		u := []string{"é", "ü", "日本", "😀", "ж", "한"}
		return u[g.r.Intn(len(u))] + id + u[g.r.Intn(len(u))]
	case 6: // siblings whose names collide under a common 32-bit string hash (seed C02-i:
		// an interning table keyed by FNV-1a of the entry name); the two halves of a
		// pair are handed out one after the other
		pairs := [][2]string{
			{"hbrfrhiuk", "hbkqadawv"}, {"hpyxhtedr", "hgpmqvaiy"}, // FNV-1a 32
			{"liquid", "costarring"}, {"altarage", "zinke"}, // FNV-1a 32, dictionary words
			{"heeovvasc", "hjdalkbwg"}, {"hiutseikk", "hgrjhclla"}, // FNV-1 32
			{"hzizxvlxq", "hxoequnzk"}, {"huofuowix", "htkrjvbzd"}, // CRC-32 (IEEE)
			{"haca", "hbab"},   // Adler-32
			{"haar", "hac0"},   // djb2 (h*33+c)
			{"haan", "hac0"},   // Java's h*31+c
			{"hd4ot", "hd4s0"}, // Jenkins one-at-a-time
		}
		g.nextID-- // these names carry no counter
		if g.collHalf == 1 {
			g.collHalf = 0
			return pairs[g.collPair][1]
		}
		g.collPair = g.r.Intn(len(pairs))
		g.collHalf = 1
		return pairs[g.collPair][0]
	default: // shares a prefix with siblings
		return "dir1" + strings.Repeat("0", g.r.Intn(3))
	}
}

func (g *gen) newEntry(dir string, shapes []int) string {
	for i := 0; i < 8; i++ {
		n := g.freshName(shapes[g.r.Intn(len(shapes))])
		p := dir + "/" + n
		if _, ok := g.kind[p]; !ok {
			return p
		}
	}
	g.nextID++
	return fmt.Sprintf("%s/z%d", dir, g.nextID)
}

// spellings of a relative path
func (g *gen) spell(p string, variety bool) (string, bool) {
	if !variety {
		return p, false
	}
	switch g.r.Intn(8) {
	case 0:
		return "./" + p, false
	case 1:
		return p + "/", false
	case 2:
		return strings.Replace(p, "/", "//", 1) + "//", false
	case 3:
		i := strings.LastIndex(p, "/")
		if i < 0 {
			return p + "/../" + p, false
		}
		return p[:i] + "/../" + p, false
	case 4:
		return p, true
	case 5:
		return "./" + p + "/.", true
	}
	return p, false
}

func (g *gen) del(p string) {
	delete(g.kind, p)
	for q := range g.kind {
		if strings.HasPrefix(q, p+"/") {
			delete(g.kind, q)
		}
	}
}

func (g *gen) move(from, to string) {
	k := g.kind[from]
	var sub [][2]string
	for q := range g.kind {
		if strings.HasPrefix(q, from+"/") {
			sub = append(sub, [2]string{q, to + q[len(from):]})
		}
	}
	g.del(to)
	g.del(from)
	g.kind[to] = k
	for _, s := range sub {
		g.kind[s[1]] = 'f'
	}
}

// worldOp produces one random filesystem operation over the directories dirs.
func (g *gen) worldOp(dirs []string, shapes []int, w opWeights) []Op {
	for try := 0; try < 20; try++ {
		d := g.pick(dirs)
		if g.kind[d] != 'd' {
			continue
		}
		kids := g.childrenOf(d)
		var files, subdirs []string
		for _, k := range kids {
			switch g.kind[k] {
			case 'f':
				files = append(files, k)
			case 'd':
				subdirs = append(subdirs, k)
			}
		}
		switch w.choose(g.r) {
		case "create":
			p := g.newEntry(d, shapes)
			g.kind[p] = 'f'
			return []Op{{K: OpCreate, P: p}}
		case "write":
			if f := g.pick(files); f != "" {
				return []Op{{K: OpWrite, P: f, N: 1 + g.r.Intn(3)}}
			}
		case "truncate":
			if f := g.pick(files); f != "" {
				return []Op{{K: OpTruncate, P: f, N: g.r.Intn(2)}}
			}
		case "chmod":
			if f := g.pick(kids); f != "" && g.kind[f] != 'l' {
				return []Op{{K: OpChmod, P: f, N: 0o600 + g.r.Intn(2)*0o44}}
			}
		case "unlink":
			if f := g.pick(files); f != "" {
				g.del(f)
				return []Op{{K: OpUnlink, P: f}}
			}
		case "mkdir":
			p := g.newEntry(d, shapes)
			g.kind[p] = 'd'
			return []Op{{K: OpMkdir, P: p}}
		case "rmdir":
			for _, sd := range subdirs {
				if len(g.childrenOf(sd)) == 0 && !contains(dirs, sd) {
					g.del(sd)
					return []Op{{K: OpRmdir, P: sd}}
				}
			}
		case "rename":
			if f := g.pick(files); f != "" {
				d2 := g.pick(dirs)
				if g.kind[d2] != 'd' {
					d2 = d
				}
				var to string
				if k2 := g.childrenOf(d2); len(k2) > 0 && g.chance(0.3) {
					to = g.pick(k2)
					if g.kind[to] != 'f' || to == f {
						to = g.newEntry(d2, shapes)
					}
				} else {
					to = g.newEntry(d2, shapes)
				}
				g.move(f, to)
				return []Op{{K: OpRename, P: f, P2: to}}
			}
		case "renameout":
			if f := g.pick(files); f != "" && g.kind["out"] == 'd' {
				to := g.newEntry("out", []int{0})
				g.move(f, to)
				return []Op{{K: OpRename, P: f, P2: to}}
			}
		case "renamein":
			if o := g.pick(filesOf(g, "out")); o != "" {
				to := g.newEntry(d, shapes)
				g.move(o, to)
				return []Op{{K: OpRename, P: o, P2: to}}
			}
			p := g.newEntry("out", []int{0})
			g.kind[p] = 'f'
			return []Op{{K: OpCreate, P: p}}
		case "link":
			if f := g.pick(files); f != "" {
				to := g.newEntry(d, shapes)
				g.kind[to] = 'f'
				return []Op{{K: OpLink, P: f, P2: to}}
			}
		case "symlink":
			if f := g.pick(kids); f != "" {
				p := g.newEntry(d, []int{0})
				g.kind[p] = 'l'
				return []Op{{K: OpSymlink, P: p, P2: f[strings.LastIndex(f, "/")+1:]}}
			}
		case "openclose":
			if f := g.pick(files); f != "" {
				slot := g.r.Intn(3)
				if _, busy := g.fdOpen[slot]; busy {
					delete(g.fdOpen, slot)
					return []Op{{K: OpCloseFD, N: slot}}
				}
				g.fdOpen[slot] = f
				k := OpOpen
				if g.chance(0.3) {
					k = OpOpenRO
				}
				return []Op{{K: k, P: f, N: slot}}
			}
		case "opendir":
			// a directory handle on a sub-directory (keeps it alive after rmdir)
			if sd := g.pick(subdirs); sd != "" {
				slot := g.r.Intn(3)
				if _, busy := g.fdOpen[slot]; busy {
					delete(g.fdOpen, slot)
					return []Op{{K: OpCloseFD, N: slot}}
				}
				g.fdOpen[slot] = sd
				return []Op{{K: OpOpenRO, P: sd, N: slot}}
			}
		case "writefd":
			for slot := 0; slot < 3; slot++ {
				if _, ok := g.fdOpen[slot]; ok {
					return []Op{{K: OpWriteFD, N: slot}}
				}
			}
		case "rmrf":
			for _, sd := range subdirs {
				if !contains(dirs, sd) {
					g.del(sd)
					return []Op{{K: OpRmRF, P: sd}}
				}
			}
		case "subfile":
			// activity inside an (unwatched) subdirectory
			if sd := g.pick(subdirs); sd != "" {
				p := g.newEntry(sd, []int{0})
				g.kind[p] = 'f'
				return []Op{{K: OpCreate, P: p}}
			}
		}
	}
	return []Op{{K: OpYield}}
}

func filesOf(g *gen, d string) []string {
	var out []string
	for _, k := range g.childrenOf(d) {
		if g.kind[k] == 'f' {
			out = append(out, k)
		}
	}
	return out
}

func contains(xs []string, s string) bool {
	for _, x := range xs {
		if x == s {
			return true
		}
	}
	return false
}

type opWeights struct {
	names []string
	w     []int
}

func weights(kv ...interface{}) opWeights {
	var o opWeights
	for i := 0; i < len(kv); i += 2 {
		o.names = append(o.names, kv[i].(string))
		o.w = append(o.w, kv[i+1].(int))
	}
	return o
}

func (o opWeights) choose(r *ssim.RNG) string {
	t := 0
	for _, x := range o.w {
		t += x
	}
	v := r.Intn(t)
	for i, x := range o.w {
		if v < x {
			return o.names[i]
		}
		v -= x
	}
	return o.names[0]
}

var defaultWorld = weights("create", 10, "write", 10, "truncate", 3, "chmod", 6, "unlink", 8, "mkdir", 4, "rmdir", 3,
	"rename", 10, "renameout", 3, "renamein", 3, "link", 3, "symlink", 2, "openclose", 5, "opendir", 2, "writefd", 2, "rmrf", 1, "subfile", 4)

var bufSizes = []int{-1, 0, 1, 2, 7, 64, 4096, 65536}

// swarm draws the run configuration shared by most families.
func (g *gen) swarm(c *Cfg) {
	switch g.r.Intn(10) {
	case 0, 1, 2, 3, 4, 5:
		c.Policy = "random"
		c.SwitchProb = []float64{0.05, 0.2, 0.5, 0.9}[g.r.Intn(4)]
	case 6, 7, 8:
		c.Policy = "pct"
		c.PCTDepth = 1 + g.r.Intn(3)
	default:
		c.Policy = "fifo"
	}
	c.Weights = map[string]float64{}
	if g.chance(0.5) {
		c.Weights["reader"] = []float64{0.05, 0.2, 1, 5}[g.r.Intn(4)]
	}
	if g.chance(0.5) {
		c.Weights["consumer"] = []float64{0.05, 0.2, 1, 5}[g.r.Intn(4)]
	}
	if g.chance(0.3) {
		c.Weights["world"] = []float64{0.2, 1, 5}[g.r.Intn(3)]
	}
	c.BatchMode = []int{0, 0, 0, 1, 2}[g.r.Intn(5)]
	c.Coalesce = g.chance(0.5)
	c.MaxSteps = 20000
}

// genMix is the general family: a tree of a few directories, one or more
// watchers on some of them (and on some files), random filesystem activity by
// 1–3 world tasks interleaved with Add/Remove/WatchList by a client.
type mixOpts struct {
	lagfree    float64 // probability of the lag-free configuration
	apiChurn   float64 // share of API ops in the client
	spellings  bool
	shapes     []int
	overflow   float64
	faultAdd   float64
	maxOps     int
	watchFiles float64
	world      opWeights
	worldTasks int
	withOps    float64
	consumers  []string
	burst      float64
	twoClients float64
	bigBurst   bool
}

func genMix(prop string, seed uint64, run int, o mixOpts) *Scenario {
	g := newGen(seed)
	sc := &Scenario{Prop: prop, Family: "mix", Seed: seed, Run: run}
	g.swarm(&sc.Cfg)
	sc.Cfg.Lagfree = g.chance(o.lagfree)
	if g.chance(o.overflow) {
		sc.Cfg.QueueLimit = 2 + g.r.Intn(30)
	}
	if g.chance(o.faultAdd) {
		sc.Cfg.FaultAdd = 4 + g.r.Intn(12)
	}
	// tree
	ndirs := 1 + g.r.Intn(3)
	var dirs []string
	setup := []Op{{K: OpMkdir, P: "out"}}
	g.kind["out"] = 'd'
	for i := 0; i < ndirs; i++ {
		d := fmt.Sprintf("d%d", i)
		dirs = append(dirs, d)
		g.kind[d] = 'd'
		setup = append(setup, Op{K: OpMkdir, P: d})
		for j := g.r.Intn(4); j > 0; j-- {
			p := g.newEntry(d, o.shapes)
			g.kind[p] = 'f'
			setup = append(setup, Op{K: OpCreate, P: p})
		}
		if g.chance(0.4) {
			p := g.newEntry(d, []int{0, 5})
			g.kind[p] = 'd'
			setup = append(setup, Op{K: OpMkdir, P: p})
		}
	}
	if o.spellings && g.chance(0.35) {
		// the current directory itself, spelled in ways that clean to "."
		dirs = append(dirs, ".")
		g.kind["."] = 'd'
		// files right in it, watched under their bare names (no directory component at all)
		for j := 1 + g.r.Intn(2); j > 0; j-- {
			p := g.newEntry(".", []int{0})
			g.kind[p] = 'f'
			setup = append(setup, Op{K: OpCreate, P: p})
		}
		if sc.Cfg.Lagfree && sc.Cfg.QueueLimit == 0 && g.chance(0.6) {
			// ... and removed as the last step of a sequential history (the run's working
			// directory is a sub-directory of the scratch root, which the harness leaves
			// first; nothing relative is resolved after that)
			sc.Cfg.Cwd = "cw"
		}
	}
	buf := bufSizes[g.r.Intn(len(bufSizes))]
	setup = append(setup, Op{K: OpNewWatcher, N: buf})
	cm := "both"
	if len(o.consumers) > 0 {
		cm = o.consumers[g.r.Intn(len(o.consumers))]
	}
	sc.Cfg.Consumers = []ConsumerCfg{{Mode: cm, StopN: g.r.Intn(6)}}
	addOp := func(p string) Op {
		if strings.HasPrefix(p, "./") && !strings.Contains(p[2:], "/") && g.chance(0.7) {
			return Op{K: OpAdd, W: 0, P: p[2:]}
		}
		if p == "." {
			return Op{K: OpAdd, W: 0, P: []string{".", "./", "d0/..", "./.", "d0/../"}[g.r.Intn(5)]}
		}
		sp, abs := g.spell(p, o.spellings)
		op := Op{K: OpAdd, W: 0, P: sp, Abs: abs}
		if g.chance(o.withOps) {
			op.Ops = uint32(1 + g.r.Intn(31))
		}
		return op
	}
	for _, d := range dirs {
		if g.chance(0.85) {
			setup = append(setup, addOp(d))
		}
	}
	for _, f := range g.paths('f') {
		if g.chance(o.watchFiles) && !strings.HasPrefix(f, "out/") {
			setup = append(setup, addOp(f))
		}
	}
	for _, sd := range g.paths('d') {
		// sub-directories with watches of their own, beside the parent's
		if strings.Contains(sd, "/") && !strings.HasPrefix(sd, "out/") && g.chance(o.watchFiles*0.6) {
			setup = append(setup, addOp(sd))
		}
	}
	if o.spellings && g.chance(0.3) {
		// a sub-directory reached through a symbolic link to its parent, with a
		// ".." in the spelling: cleaning is lexical, the name stays under the link
		for _, sd := range g.paths('d') {
			if i := strings.Index(sd, "/"); i > 0 && !strings.Contains(sd[i+1:], "/") && sd[:i] != "out" {
				base := sd[i+1:]
				// the link goes in just before the Watcher is made (the tree exists by then)
				var ns []Op
				for _, op := range setup {
					if op.K == OpNewWatcher {
						ns = append(ns, Op{K: OpSymlink, P: "lnk", P2: sd[:i]})
					}
					ns = append(ns, op)
				}
				setup = append(ns, Op{K: OpAdd, W: 0, P: []string{"lnk/" + base + "/../" + base, "lnk/" + base, "lnk/./" + base + "/"}[g.r.Intn(3)]})
				break
			}
		}
	}
	sc.Setup = setup
	nops := 3 + g.r.Intn(o.maxOps)
	world := o.world
	if len(world.names) == 0 {
		world = defaultWorld
	}
	if sc.Cfg.Lagfree {
		var ops []Op
		for i := 0; i < nops; i++ {
			if g.chance(o.apiChurn) {
				ops = append(ops, g.apiOp(dirs, o, addOp))
			} else {
				ops = append(ops, g.worldOp(dirs, o.shapes, world)...)
			}
		}
		if sc.Cfg.Cwd != "" {
			ops = append(ops, Op{K: OpLeaveRm, P: sc.Cfg.Cwd})
		}
		sc.Tasks = []TaskScript{{Name: "seq", Role: "world", Ops: ops}}
		return sc
	}
	nw := 1
	if o.worldTasks > 1 {
		nw = 1 + g.r.Intn(o.worldTasks)
	}
	wt := make([][]Op, nw)
	var cl []Op
	for i := 0; i < nops; i++ {
		if g.chance(o.apiChurn) {
			cl = append(cl, g.apiOp(dirs, o, addOp))
		} else {
			k := g.r.Intn(nw)
			wt[k] = append(wt[k], g.worldOp(dirs, o.shapes, world)...)
			if g.chance(0.08) {
				wt[k] = append(wt[k], Op{K: OpQuiesce})
			}
		}
	}
	if g.chance(o.burst) {
		// a burst larger than most channel buffers
		d := g.pick(dirs)
		nb := 70 + g.r.Intn(140)
		if o.bigBurst && g.chance(0.2) {
			// thousands of notifications in the queue at once: one read returns as many as fit in the 64 KiB buffer
			nb = 2100 + g.r.Intn(600)
			sc.Cfg.Weights = map[string]float64{"reader": 0.001, "consumer": 1}
			sc.Cfg.QueueLimit = 0
		}
		if nb > 2000 && g.chance(0.5) {
			// ... of records without a name (16 bytes each: exactly 4096 of them fill the
			// read buffer): alternating writes to two watched files of an unwatched directory
			var ns []Op
			for _, op := range setup {
				if op.K == OpNewWatcher {
					ns = append(ns, Op{K: OpCreate, P: "out/nlA"}, Op{K: OpCreate, P: "out/nlB"})
				}
				ns = append(ns, op)
			}
			sc.Setup = append(ns, Op{K: OpAdd, W: 0, P: "out/nlA"}, Op{K: OpAdd, W: 0, P: "out/nlB"})
			nb = 4100 + g.r.Intn(300)
			for i := 0; i < nb; i++ {
				wt[0] = append(wt[0], Op{K: OpWrite, P: []string{"out/nlA", "out/nlB"}[i%2], N: 1})
			}
		} else {
			for i, n := 0, nb; i < n; i++ {
				wt[0] = append(wt[0], Op{K: OpCreate, P: fmt.Sprintf("%s/burst%d", d, i)})
			}
		}
		sc.Cfg.MaxSteps = 60000 + nb*20
	}
	for k := range wt {
		sc.Tasks = append(sc.Tasks, TaskScript{Name: fmt.Sprintf("world%d", k), Role: "world", Ops: wt[k]})
	}
	if len(cl) > 1 && g.chance(o.twoClients) {
		// two API callers: overlapping Add/Remove of the same paths
		var a, b []Op
		for _, op := range cl {
			if g.chance(0.5) {
				a = append(a, op)
			} else {
				b = append(b, op)
				if op.K == OpRemove && g.chance(0.5) {
					a = append(a, Op{K: OpAdd, W: op.W, P: op.P, Abs: op.Abs})
				}
			}
		}
		sc.Tasks = append(sc.Tasks, TaskScript{Name: "client0", Role: "client", Ops: a}, TaskScript{Name: "client1", Role: "client", Ops: b})
	} else if len(cl) > 0 {
		sc.Tasks = append(sc.Tasks, TaskScript{Name: "client0", Role: "client", Ops: cl})
	}
	return sc
}

func (g *gen) apiOp(dirs []string, o mixOpts, addOp func(string) Op) Op {
	switch g.r.Intn(10) {
	case 0, 1, 2, 3:
		// add a dir or a file
		var cands []string
		for p, k := range g.kind {
			if (k == 'd' || k == 'f' || k == 'l') && !strings.HasPrefix(p, "out") {
				cands = append(cands, p)
			}
		}
		sort.Strings(cands)
		if p := g.pick(cands); p != "" {
			return addOp(p)
		}
		return Op{K: OpWatchList}
	case 4, 5, 6:
		var cands []string
		for p, k := range g.kind {
			if (k == 'd' || k == 'f') && !strings.HasPrefix(p, "out") {
				cands = append(cands, p)
			}
		}
		sort.Strings(cands)
		cands = append(cands, "missing", "d0/nonexistent")
		p := g.pick(cands)
		sp, abs := g.spell(p, o.spellings)
		return Op{K: OpRemove, P: sp, Abs: abs}
	case 7:
		return Op{K: OpAdd, P: g.pick([]string{"missing", "d0/missing/deeper", "d0/" + strings.Repeat("x", 300)})}
	default:
		return Op{K: OpWatchList}
	}
}
