//go:build !kq

package main

import (
	"fmt"
	"math"
	"math/bits"
	"sort"
	"strings"

	"golang.org/x/sys/unix"
	"verifsim/sinot"
)

type frontier struct {
	progress int
	reasons  []string
	expected []MEvent
	gotIdx   int
}

type searcher struct {
	natFinalWL    string // the WatchList taken at final quiescence disagrees with the model run in natural order
	wr            *WatcherRec
	calls         []*APICall
	L             []sinot.Record
	upper         []int // per record: step by which it had certainly been handled
	mustRec       []int // per call: number of records that must precede it
	pred          []uint64
	mustCall      []uint64 // per record: calls that must precede it
	closeOv       []bool
	firstCloseInv int
	memo          map[string]struct{}
	best          frontier
	nodes         int
	limit         int
	relax         map[string]int
	final         *Model // model at the end of the accepted linearisation
	atFinalWL     *Model // model when the epilogue WatchList was linearised
	order         []string
	recurse       bool
	x             *Exec
	stageA        []Violation // Stage A objection of the last otherwise acceptable linearisation
	stageAFails   int
}

func newSearcher(x *Exec, wr *WatcherRec) *searcher {
	s := &searcher{wr: wr, x: x, memo: map[string]struct{}{}, limit: 400000, relax: map[string]int{}, recurse: x.sc.Cfg.Recurse}
	for _, c := range x.H {
		if c.W == wr.Idx && c.Kind != OpNewWatcher && c.Class != "no-watcher" {
			s.calls = append(s.calls, c)
		}
	}
	sort.SliceStable(s.calls, func(i, j int) bool { return s.calls[i].Inv < s.calls[j].Inv })
	if wr.Inst != nil {
		s.L = wr.Inst.Fed
	}
	// upper bound of handling: the next Read call of the reader after the feed
	var rc []int
	if wr.Inst != nil {
		rc = wr.Inst.ReadCalls
	}
	s.upper = make([]int, len(s.L))
	for i, r := range s.L {
		s.upper[i] = math.MaxInt
		k := sort.SearchInts(rc, r.FeedStep+1)
		if k < len(rc) {
			s.upper[i] = rc[k]
		}
	}
	n := len(s.calls)
	s.pred = make([]uint64, n)
	s.mustRec = make([]int, n)
	s.closeOv = make([]bool, n)
	for i, c := range s.calls {
		for j, b := range s.calls {
			if i != j && b.Ret >= 0 && b.Ret < c.Inv {
				s.pred[i] |= 1 << uint(j)
			}
		}
		for k := range s.L {
			if s.upper[k] < c.Inv {
				s.mustRec[i] = k + 1
			}
		}
		if c.Kind == OpClose && (s.firstCloseInv == 0 || c.Inv < s.firstCloseInv) {
			s.firstCloseInv = c.Inv
		}
	}
	for i, c := range s.calls {
		for j, k := range s.calls {
			if i == j || k.Kind != OpClose {
				continue
			}
			if (c.Ret < 0 || k.Inv <= c.Ret) && (k.Ret < 0 || k.Ret >= c.Inv) {
				s.closeOv[i] = true
			}
		}
	}
	s.mustCall = make([]uint64, len(s.L))
	for k, r := range s.L {
		for j, c := range s.calls {
			if c.Ret >= 0 && c.Ret < r.FeedStep {
				s.mustCall[k] |= 1 << uint(j)
			}
		}
	}
	return s
}

func (s *searcher) findAdd(path string, after int) (int32, uint64, bool) {
	if s.wr.Inst == nil {
		return 0, 0, false
	}
	for _, c := range s.wr.Inst.Calls {
		if c.Kind == "add" && c.Errno == 0 && c.Step >= after && cleanPath(c.Path) == path {
			return int32(c.Wd), c.Inode, true
		}
	}
	return 0, 0, false
}

func (s *searcher) parentReported(dir uint64, ino uint64, upto int) bool {
	if s.x.sim.Shadow == nil {
		return false
	}
	// one filesystem syscall per step: a DELETE / MOVED_TO on the directory and
	// a link-count change (ATTRIB) or DELETE_SELF on the file in the same step
	// are the same unlink or overwriting rename
	G := s.x.sim.Shadow.G
	for i, g := range G {
		if g.Step > upto {
			break
		}
		if g.Inode != dir || g.Mask&(unix.IN_DELETE|unix.IN_MOVED_TO) == 0 {
			continue
		}
		for j := i - 8; j < len(G) && j <= i+8; j++ {
			if j >= 0 && G[j].Step == g.Step && G[j].Inode == ino && G[j].Name == "" && G[j].Mask&(unix.IN_ATTRIB|unix.IN_DELETE_SELF) != 0 {
				return true
			}
		}
		// a directory (or a file that is still open) gets no record of its own when
		// its entry goes; the harness noted which inode the operation of that step removed
		for _, r := range s.x.Removed {
			if r.Ino == ino && (r.Step == g.Step || r.Step == g.Step-1 || r.Step == g.Step+1) {
				return true
			}
		}
	}
	return false
}

func (s *searcher) uncertain(wd int32, upto int) bool {
	if s.wr.Inst == nil {
		return false
	}
	for _, d := range s.wr.Inst.Dropped {
		if d.Wd == wd && d.Step <= upto {
			return true
		}
	}
	return false
}

func evMatch(e MEvent, d Delivered) bool {
	if e.Name != d.Name || e.Op != d.Op {
		return false
	}
	return e.From == renamedFrom(d.Str)
}

// renamedFrom extracts the old name from Event.String() ("OP  "new" ← "old"").
func renamedFrom(str string) string {
	i := strings.Index(str, "\" ← \"")
	if i < 0 {
		return ""
	}
	q := str[i+len("\" ← "):]
	var out string
	if _, err := fmt.Sscanf(q, "%q", &out); err == nil {
		return out
	}
	return strings.Trim(q, "\"")
}

func (s *searcher) note(progress int, reason string, exp []MEvent, di int) {
	if progress > s.best.progress {
		s.best = frontier{progress: progress}
	}
	if progress == s.best.progress && len(s.best.reasons) < 6 {
		s.best.reasons = append(s.best.reasons, reason)
		s.best.expected = exp
		s.best.gotIdx = di
	}
}

// dfs explores linearisations. rec: next record; done: calls linearised;
// di: next delivered event; dead: the reader has given up sending (Close).
func (s *searcher) dfs(rec int, done uint64, di int, dead bool, m *Model, trail []string) bool {
	s.nodes++
	if s.nodes > s.limit {
		return false
	}
	allCalls := true
	for i, c := range s.calls {
		if done&(1<<uint(i)) == 0 && c.Ret >= 0 {
			allCalls = false
		}
	}
	D := s.wr.D
	if rec == len(s.L) && allCalls {
		if di == len(D) {
			// Stage A under this linearisation: a linearisation is acceptable only
			// if nothing was lost on the way into the library under it.
			if s.x.S.Outcome == "" {
				if va := stageA(s.x, s.wr, m, s.calls); len(va) > 0 {
					s.stageA = va
					s.stageAFails++
					return false
				}
			}
			s.final = m
			s.order = append([]string(nil), trail...)
			return true
		}
		s.note(rec+bits.OnesCount64(done)+1, fmt.Sprintf("delivered event %d has no cause: %s", di, D[di].Str), nil, di)
		return false
	}
	key := fmt.Sprintf("%d|%x|%d|%v|%s", rec, done, di, dead, m.key())
	if _, ok := s.memo[key]; ok {
		return false
	}
	s.memo[key] = struct{}{}
	progress := rec + bits.OnesCount64(done)

	type cand struct {
		isRec bool
		idx   int
		t     int
	}
	var cands []cand
	if rec < len(s.L) && s.mustCall[rec]&^done == 0 {
		cands = append(cands, cand{true, rec, s.L[rec].FeedStep})
	}
	for i, c := range s.calls {
		if done&(1<<uint(i)) != 0 {
			continue
		}
		if s.pred[i]&^done != 0 || rec < s.mustRec[i] {
			continue
		}
		t := c.Inv
		if c.Ret >= 0 {
			t = c.Ret
		}
		cands = append(cands, cand{false, i, t})
	}
	sort.SliceStable(cands, func(a, b int) bool { return cands[a].t < cands[b].t })
	for _, cd := range cands {
		if cd.isRec {
			r := &s.L[rec]
			mm := m.clone()
			evs := mm.Feed(r)
			if dead {
				if s.dfs(rec+1, done, di, true, mm, trail) {
					return true
				}
				continue
			}
			droppable := s.firstCloseInv > 0 && s.upper[rec] >= s.firstCloseInv
			if len(evs) == 0 {
				if s.dfs(rec+1, done, di, false, mm, append(trail, fmt.Sprintf("rec%d", rec))) {
					return true
				}
				continue
			}
			ev := evs[0]
			if di < len(D) && evMatch(ev, D[di]) {
				if s.dfs(rec+1, done, di+1, false, mm, append(trail, fmt.Sprintf("rec%d->ev%d", rec, di))) {
					return true
				}
			} else if !ev.Optional && !droppable {
				got := "nothing (stream ended)"
				if di < len(D) {
					got = D[di].Str
				}
				s.note(progress, fmt.Sprintf("record %s must yield [%s]; next delivered: %s", r, ev, got), evs, di)
			}
			if ev.Optional {
				s.relax["optional-remove-already-reported-by-parent"]++
				if s.dfs(rec+1, done, di, false, mm, trail) {
					return true
				}
			}
			if droppable {
				if s.dfs(rec+1, done, di, true, mm, trail) {
					return true
				}
			}
			continue
		}
		c := s.calls[cd.idx]
		mm := m.clone()
		res := mm.Apply(c, s.closeOv[cd.idx])
		if c.Ret < 0 {
			// a call that never returned may or may not have taken effect
			if s.dfs(rec, done|1<<uint(cd.idx), di, dead, m, trail) {
				return true
			}
		}
		if !res.OK {
			s.note(progress, fmt.Sprintf("call #%d %s(%q) by %s [%d,%d]: %s", c.Idx, c.Kind, c.Path, c.Task, c.Inv, c.Ret, res.Reason), nil, di)
			continue
		}
		if c.Kind == OpWatchList && c.Phase == "epilogue" {
			s.atFinalWL = mm.clone()
		}
		if s.dfs(rec, done|1<<uint(cd.idx), di, dead, mm, append(trail, fmt.Sprintf("call#%d", c.Idx))) {
			if res.Relax != "" {
				s.relax[res.Relax]++
			}
			return true
		}
	}
	return false
}

// natural computes the expected event sequence under the natural order (calls
// at their return, records when certainly handled); used only to classify a
// failure, never to decide one.
func (s *searcher) natural() []MEvent {
	type item struct {
		t     int
		isRec bool
		idx   int
	}
	var items []item
	for i, r := range s.L {
		items = append(items, item{r.FeedStep, true, i})
	}
	for i, c := range s.calls {
		t := c.Ret
		if t < 0 {
			t = math.MaxInt
		}
		items = append(items, item{t, false, i})
	}
	sort.SliceStable(items, func(a, b int) bool { return items[a].t < items[b].t })
	m := newModel(s.recurse)
	m.FindAdd = s.findAdd
	m.ParentReported = s.parentReported
	m.Uncertain = s.uncertain
	var out []MEvent
	for _, it := range items {
		if it.isRec {
			for _, e := range m.Feed(&s.L[it.idx]) {
				out = append(out, e)
			}
		} else {
			res := m.Apply(s.calls[it.idx], s.closeOv[it.idx])
			if c := s.calls[it.idx]; c.Kind == OpWatchList && c.Phase == "epilogue" && !res.OK {
				s.natFinalWL = res.Reason
			}
		}
	}
	return out
}

func evKey(name string, op uint32) string { return fmt.Sprintf("%s\x00%d", name, op) }

// classify turns a failed search into violation kinds.
func (s *searcher) classify() []Violation {
	wi := s.wr.Idx
	var out []Violation
	reasons := strings.Join(s.best.reasons, " || ")
	apiOnly := true
	for _, r := range s.best.reasons {
		if !strings.HasPrefix(r, "call #") {
			apiOnly = false
		}
	}
	if len(s.best.reasons) > 0 && apiOnly {
		kind := "wrong-result"
		site := ""
		for _, r := range s.best.reasons {
			switch {
			case strings.Contains(r, "WatchList"):
				kind, site = "watchlist-mismatch", "WatchList"
			case strings.Contains(r, "Remove"):
				kind, site = "wrong-error", "Remove"
			case strings.Contains(r, "Add"):
				kind, site = "wrong-error", "Add"
			case strings.Contains(r, "Close"):
				kind, site = "wrong-error", "Close"
			}
			if strings.Contains(r, "after Close") {
				kind = "post-close-result"
			}
		}
		return []Violation{{Kind: kind, Watcher: wi, Detail: reasons, Site: site}}
	}
	exp := s.natural()
	if s.natFinalWL != "" {
		// whatever went wrong with the events, the watch set the Watcher reports once
		// everything has settled is not the one its history leads to
		out = append(out, Violation{Kind: "watchlist-mismatch", Watcher: wi, Site: "WatchList", Detail: "at final quiescence: " + s.natFinalWL})
	}
	D := s.wr.D
	cnt := map[string]int{}
	for _, e := range exp {
		if !e.Optional {
			cnt[evKey(e.Name, e.Op)]++
		}
	}
	optional := map[string]int{}
	for _, e := range exp {
		if e.Optional {
			optional[evKey(e.Name, e.Op)]++
		}
	}
	var phantom []Delivered
	for _, d := range D {
		k := evKey(d.Name, d.Op)
		if cnt[k] > 0 {
			cnt[k]--
		} else if optional[k] > 0 {
			optional[k]--
		} else {
			phantom = append(phantom, d)
		}
	}
	var lost []MEvent
	for _, e := range exp {
		k := evKey(e.Name, e.Op)
		if !e.Optional && cnt[k] > 0 {
			cnt[k]--
			lost = append(lost, e)
		}
	}
	// pair up lost/phantom events that differ only in the name: name mismatches
	usedP := map[int]bool{}
	var lost2 []MEvent
	for _, e := range lost {
		paired := false
		for j, d := range phantom {
			if !usedP[j] && d.Op == e.Op && d.Name != e.Name {
				usedP[j] = true
				paired = true
				out = append(out, Violation{Kind: "name-mismatch", Watcher: wi, Site: opString(e.Op),
					Detail: fmt.Sprintf("expected %s, delivered %s || %s", e, d.Str, reasons)})
				if cleanPath(d.Name) != cleanPath(e.Name) {
					// not another spelling of the same entry but a different entry: the delivered
					// event has no cause and the expected one was not delivered under its name
					out = append(out, Violation{Kind: "phantom-event", Watcher: wi, Site: opString(d.Op), Detail: fmt.Sprintf("delivered %s names an entry to which that did not happen (expected %s) || %s", d.Str, e, reasons)})
					out = append(out, Violation{Kind: "lost-event", Watcher: wi, Site: opString(e.Op), Detail: fmt.Sprintf("expected %s was delivered under another entry's name (%s) || %s", e, d.Str, reasons)})
				}
				break
			}
		}
		if !paired {
			lost2 = append(lost2, e)
		}
	}
	var ph2 []Delivered
	for j, d := range phantom {
		if !usedP[j] {
			ph2 = append(ph2, d)
		}
	}
	if s.firstCloseInv > 0 && s.firstCloseInv <= s.x.BodyEnd {
		// with a Close in the body, natural-order classification of losses is
		// unreliable (in-flight events may legitimately be dropped)
		lost2 = nil
	}
	for _, e := range lost2 {
		out = append(out, Violation{Kind: "lost-event", Watcher: wi, Site: opString(e.Op), Detail: fmt.Sprintf("expected %s was never delivered || %s", e, reasons)})
		break
	}
	if len(lost)+len(phantom) > 0 && !(s.firstCloseInv > 0 && s.firstCloseInv <= s.x.BodyEnd) {
		// whatever is missing or surplus: the events that can be attributed without
		// doubt - (name, op) occurs exactly once in the expectation (of several
		// deliveries the first one counts) - must still come in the order of their kernel records (a
		// defect that loses events and lets later ones overtake is an order violation
		// too: seed C03-i)
		expIdx, expCnt, dCnt := map[string]int{}, map[string]int{}, map[string]int{}
		for i, e := range exp {
			k := evKey(e.Name, e.Op)
			expCnt[k]++
			expIdx[k] = i
		}
		for _, d := range D {
			dCnt[evKey(d.Name, d.Op)]++
		}
		last, lastStr := -1, ""
		for _, d := range D {
			k := evKey(d.Name, d.Op)
			if expCnt[k] != 1 || dCnt[k] < 1 {
				continue
			}
			dCnt[k] = -1 // of an event delivered more than once the first delivery counts
			if expIdx[k] < last {
				out = append(out, Violation{Kind: "order", Watcher: wi, Site: opString(d.Op),
					Detail: fmt.Sprintf("%s was delivered after %s, its kernel record came before (and other events are missing or surplus) || %s", d.Str, lastStr, reasons)})
				break
			}
			last, lastStr = expIdx[k], d.Str
		}
	}
	for _, d := range ph2 {
		kind := "phantom-event"
		if d.Op == 0 {
			kind = "housekeeping-event"
		}
		out = append(out, Violation{Kind: kind, Watcher: wi, Site: opString(d.Op), Detail: fmt.Sprintf("delivered %s has no cause || %s", d.Str, reasons)})
		break
	}
	if len(out) > 0 {
		return out
	}
	// same multiset: old-name or order
	if len(exp) == len(D) {
		for i := range exp {
			if exp[i].Name == D[i].Name && exp[i].Op == D[i].Op && exp[i].From != renamedFrom(D[i].Str) {
				return []Violation{{Kind: "renamed-from-mismatch", Watcher: wi, Site: "Create",
					Detail: fmt.Sprintf("expected %s, delivered %s || %s", exp[i], D[i].Str, reasons)}}
			}
		}
	}
	req := 0
	for _, e := range exp {
		if !e.Optional {
			req++
		}
	}
	if len(D) >= req {
		for i := 0; i < len(D) && i < len(exp); i++ {
			if exp[i].Name != D[i].Name || exp[i].Op != D[i].Op {
				return []Violation{{Kind: "order", Watcher: wi, Site: opString(D[i].Op),
					Detail: fmt.Sprintf("position %d: expected %s, delivered %s || %s", i, exp[i], D[i].Str, reasons)}}
			}
		}
	}
	return []Violation{{Kind: "history-not-explainable", Watcher: wi, Detail: reasons}}
}

// stageA: nothing was lost on the way into the library. Every ground-truth
// record about a surely-watched inode with a requested flag was fed to the
// reader (or is noted as merged / dropped by overflow).
func stageA(x *Exec, wr *WatcherRec, m *Model, calls []*APICall) []Violation {
	if wr.Inst == nil || x.sim.Shadow == nil {
		return nil
	}
	in := wr.Inst
	type k struct {
		step int
		ino  uint64
		name string
	}
	have := map[k]uint32{}
	add := func(rs []sinot.Record) {
		for _, r := range rs {
			have[k{r.Step, r.Inode, r.Name}] |= r.Mask
		}
	}
	add(in.Fed)
	add(in.Merged)
	add(in.Dropped)
	add(in.Queue) // still queued at the end (watcher closed before reading them)
	callByIdx := map[int]*APICall{}
	for _, c := range x.H {
		callByIdx[c.Idx] = c
	}
	closedAt := math.MaxInt
	for _, c := range calls {
		if c.Kind == OpClose && c.Inv < closedAt {
			closedAt = c.Inv
		}
	}
	var out []Violation
	for _, inc := range m.Incs {
		if inc.Wd < 0 && inc.StartCall < 0 {
			continue
		}
		start := 0
		if inc.StartCall >= 0 {
			c := callByIdx[inc.StartCall]
			if c == nil || c.Ret < 0 {
				continue
			}
			start = c.Ret
		} else {
			continue // sub-watch created by the reader: covered "from the delivery of its Create" – checked by Stage B
		}
		end := closedAt
		if inc.EndCall >= 0 {
			if c := callByIdx[inc.EndCall]; c != nil && c.Inv < end {
				end = c.Inv
			}
		}
		if inc.EndStep > 0 && inc.EndStep < end {
			end = inc.EndStep + 1
		}
		need := nativeBits(inc.Ops)
		for _, g := range x.sim.Shadow.G {
			if g.Inode != inc.Ino || g.Step <= start || g.Step >= end {
				continue
			}
			b := g.Mask & need
			if b == 0 {
				continue
			}
			// the kernel ends the watch itself at DELETE_SELF / (library) MOVE_SELF:
			// later ground-truth records of the inode are not owed
			got := have[k{g.Step, g.Inode, g.Name}]
			if got&b != b {
				out = append(out, Violation{Kind: "lost-event", Watcher: wr.Idx, Site: "subscription:" + sinot.MaskString(b&^got),
					Detail: fmt.Sprintf("ground truth %s on watched inode (spelling %q, ops %s) never reached the reader", g, inc.Spelling, opString(inc.Ops))})
				return out
			}
			if g.Mask&(unix.IN_MOVE_SELF|unix.IN_DELETE_SELF) != 0 {
				break
			}
		}
	}
	return out
}
