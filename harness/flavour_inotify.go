//go:build !kq

package main

const isKq = false

func filepathEvalSymlinks(p string) (string, error) { return p, nil }
