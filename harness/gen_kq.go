package main

import (
	"fmt"
	"sort"
)

// ---------------------------------------------------------------------------
// C17: descriptors opened for watches are closed again

func genKqFD(prop string, seed uint64, run int, tier string) *Scenario {
	g := newGen(seed)
	sc := &Scenario{Prop: prop, Family: "kqfd", Seed: seed, Run: run}
	g.swarm(&sc.Cfg)
	sc.Cfg.Coalesce = g.chance(0.5) // = permute simultaneously active knotes
	sc.Cfg.RemoveAllAtEnd = g.chance(0.7)
	if g.chance(0.25) {
		sc.Cfg.FaultAdd = 4 + g.r.Intn(8) // open() faults
	}
	setup := []Op{{K: OpMkdir, P: "k"}, {K: OpMkdir, P: "k/d1"}, {K: OpMkdir, P: "k/d2"}, {K: OpMkdir, P: "out"}}
	g.kind["k"], g.kind["k/d1"], g.kind["k/d2"], g.kind["out"] = 'd', 'd', 'd', 'd'
	dirs := []string{"k/d1", "k/d2"}
	for _, d := range dirs {
		for j := g.r.Intn(6); j > 0; j-- {
			p := g.newEntry(d, []int{0})
			switch g.r.Intn(6) {
			case 0:
				g.kind[p] = 'd'
				setup = append(setup, Op{K: OpMkdir, P: p})
			case 1:
				g.kind[p] = 'l'
				setup = append(setup, Op{K: OpSymlink, P: p, P2: "nowhere"})
			case 2:
				setup = append(setup, Op{K: OpMkfifo, P: p})
			default:
				g.kind[p] = 'f'
				setup = append(setup, Op{K: OpCreate, P: p})
			}
		}
	}
	setup = append(setup, Op{K: OpSymlink, P: "k/ld1", P2: "d1"})
	setup = append(setup, Op{K: OpNewWatcher, N: []int{-1, 0, 16}[g.r.Intn(3)]})
	// 20 % of the runs spell some paths the way users do: "./dir", "dir/"
	spell := func(p string) string { return p }
	if g.chance(0.2) {
		spell = func(p string) string {
			switch g.r.Intn(4) {
			case 0:
				return "./" + p
			case 1:
				return p + "/"
			}
			return p
		}
	}
	for _, d := range dirs {
		if g.chance(0.8) {
			op := Op{K: OpAdd, P: d, Abs: g.chance(0.5)}
			if !op.Abs {
				op.P = spell(d)
			}
			setup = append(setup, op)
		}
	}
	if g.chance(0.3) {
		setup = append(setup, Op{K: OpAdd, P: "k/ld1"})
	}
	for _, f := range g.paths('f') {
		if g.chance(0.25) {
			setup = append(setup, Op{K: OpAdd, P: f})
		}
	}
	sc.Setup = setup
	world := weights("create", 10, "write", 8, "chmod", 4, "unlink", 10, "mkdir", 4, "rmdir", 4, "rename", 10, "renameout", 4, "renamein", 3, "symlink", 2, "rmrf", 2, "subfile", 2)
	var w, c []Op
	for i := 3 + g.r.Intn(24); i > 0; i-- {
		if g.chance(0.25) {
			var cands []string
			for p, k := range g.kind {
				if (k == 'd' || k == 'f') && p != "out" && p != "k" {
					cands = append(cands, p)
				}
			}
			sort.Strings(cands)
			p := g.pick(cands)
			switch g.r.Intn(5) {
			case 0, 1:
				c = append(c, Op{K: OpAdd, P: spell(p)})
			case 2, 3:
				c = append(c, Op{K: OpRemove, P: spell(p)})
			default:
				c = append(c, Op{K: OpWatchList})
			}
		} else {
			w = append(w, g.worldOp(dirs, []int{0}, world)...)
			if g.chance(0.1) {
				// the watched directories themselves
				d := dirs[g.r.Intn(len(dirs))]
				w = append(w, []Op{{K: OpRmRF, P: d}, {K: OpRename, P: d, P2: "out/gone" + fmt.Sprint(i)}}[g.r.Intn(2)], Op{K: OpMkdir, P: d})
			}
		}
	}
	if g.chance(0.3) {
		c = append(c, Op{K: OpClose})
	}
	if g.chance(0.4) {
		// sequential
		sc.Cfg.Lagfree = true
		ops := interleave(g, w, c)
		if g.chance(0.3) {
			// a watched directory is changed and renamed away in one breath (one kevent
			// carries NOTE_WRITE and NOTE_RENAME), and nothing takes its place
			d := dirs[g.r.Intn(len(dirs))]
			ops = append(ops, Op{K: OpCreate, P: d + "/nq", NQ: true}, Op{K: OpRename, P: d, P2: "out/nqgone"})
		}
		sc.Tasks = []TaskScript{{Name: "seq", Role: "world", Ops: ops}}
	} else {
		sc.Tasks = []TaskScript{{Name: "world0", Role: "world", Ops: w}, {Name: "client0", Role: "client", Ops: c}}
	}
	return sc
}

func interleave(g *gen, a, b []Op) []Op {
	var out []Op
	for len(a) > 0 || len(b) > 0 {
		if len(b) == 0 || (len(a) > 0 && g.chance(0.7)) {
			out = append(out, a[0])
			a = a[1:]
		} else {
			out = append(out, b[0])
			b = b[1:]
		}
	}
	return out
}

// ---------------------------------------------------------------------------
// C18: directory semantics, sequential and lag-free

func genKqDir(prop string, seed uint64, run int, tier string) *Scenario {
	g := newGen(seed)
	sc := &Scenario{Prop: prop, Family: "kqdir", Seed: seed, Run: run}
	g.swarm(&sc.Cfg)
	sc.Cfg.Lagfree = !g.chance(0.3) // 30 %: no pauses (only the safety half of the oracle applies)
	sc.Cfg.Policy = "random"
	sc.Cfg.Coalesce = g.chance(0.5)
	setup := []Op{{K: OpMkdir, P: "w"}, {K: OpMkdir, P: "w/a"}, {K: OpMkdir, P: "w/b"}, {K: OpMkdir, P: "out"}, {K: OpSymlink, P: "w/la", P2: "a"}}
	g.kind["w/a"], g.kind["w/b"], g.kind["out"] = 'd', 'd', 'd'
	dirs := []string{"w/a"}
	if g.chance(0.5) {
		dirs = append(dirs, "w/b")
	}
	for _, d := range dirs {
		for j := g.r.Intn(4); j > 0; j-- {
			p := g.newEntry(d, []int{0, 2, 4})
			g.kind[p] = 'f'
			setup = append(setup, Op{K: OpCreate, P: p})
		}
		if g.chance(0.4) {
			p := g.newEntry(d, []int{0})
			g.kind[p] = 'd'
			setup = append(setup, Op{K: OpMkdir, P: p})
		}
	}
	setup = append(setup, Op{K: OpNewWatcher, N: []int{-1, 0, 16}[g.r.Intn(3)]})
	// "as the user spelled it": absolute, relative, ./, through a symlink
	for i, d := range dirs {
		op := Op{K: OpAdd, P: d}
		switch g.r.Intn(4) {
		case 0:
			op.Abs = true
		case 1:
			op.P = "./" + d
		case 2:
			if i == 0 && false {
				op.P = "w/la" // symlinked watch path: events named under the link (areas marked broken are excluded, see DESIGN)
			}
		}
		setup = append(setup, op)
	}
	// 25 %: the parent directory is watched as well (before or after its
	// sub-directories) and removed again as the first step of the history: the
	// sub-directories stay watched directories of their own
	var ops []Op
	parentStays, nested := false, false
	if g.chance(0.3) {
		nested = true
		par := Op{K: OpAdd, P: "w", Abs: g.chance(0.3)}
		if g.chance(0.5) {
			setup = append(setup, par)
		} else {
			// before the sub-directories: insert ahead of their Adds
			n := len(setup) - len(dirs)
			setup = append(setup[:n:n], append([]Op{par}, setup[n:]...)...)
		}
		if g.chance(0.5) {
			ops = append(ops, Op{K: OpRemove, P: "w", Abs: par.Abs})
		} else {
			// ... or it stays watched, and plain files come and go in it as well
			parentStays = true
		}
		// (no symbolic link among the parent's entries: a watch on such an entry
		// follows the link, and what it then reports is outside this property)
		var ns []Op
		for _, op := range setup {
			if op.K != OpSymlink {
				ns = append(ns, op)
			}
		}
		setup = ns
	}
	sc.Setup = setup
	world := weights("create", 12, "write", 10, "chmod", 6, "unlink", 10, "mkdir", 4, "rmdir", 4, "rename", 10, "renameout", 3, "renamein", 3, "subfile", 2)
	var pfiles []string
	for i := 3 + g.r.Intn(24); i > 0; i-- {
		if parentStays && g.chance(0.25) {
			if len(pfiles) > 0 && g.chance(0.4) {
				k := g.r.Intn(len(pfiles))
				ops = append(ops, Op{K: OpUnlink, P: pfiles[k]})
				pfiles = append(pfiles[:k], pfiles[k+1:]...)
			} else {
				f := fmt.Sprintf("w/pn%d", i)
				pfiles = append(pfiles, f)
				ops = append(ops, Op{K: OpCreate, P: f})
			}
			continue
		}
		for _, o := range g.worldOp(dirs, []int{0, 2, 4}, world) {
			if o.K == OpYield {
				continue
			}
			ops = append(ops, o)
		}
	}
	if sc.Cfg.Lagfree && !nested && len(ops) >= 6 && g.chance(0.2) {
		// the watch of one directory is removed for the middle third of the history
		// and added again: nothing is reported in between, entries that exist at the
		// second Add are not new, names re-used after it are
		var add Op
		for _, op := range setup {
			if op.K == OpAdd {
				add = op
				break
			}
		}
		i1, i2 := len(ops)/3, 2*len(ops)/3
		d := dirs[0]
		var no []Op
		// two names that exist while watched, go away while not, and come back afterwards
		no = append(no, Op{K: OpCreate, P: d + "/rA"}, Op{K: OpCreate, P: d + "/rB"})
		no = append(no, ops[:i1]...)
		no = append(no, Op{K: OpRemove, P: add.P, Abs: add.Abs})
		no = append(no, Op{K: OpUnlink, P: d + "/rA"}, Op{K: OpUnlink, P: d + "/rB"})
		no = append(no, ops[i1:i2]...)
		no = append(no, add)
		no = append(no, Op{K: OpCreate, P: d + "/rA"}, Op{K: OpCreate, P: d + "/rB"})
		no = append(no, ops[i2:]...)
		ops = no
	}
	sc.Tasks = []TaskScript{{Name: "seq", Role: "world", Ops: ops}}
	return sc
}

// genKqScript replays one of the repository's testdata scripts (validation of
// the simulated kernel); run index selects the script.
func genKqScript(names []string, texts map[string]string, idx int) *Scenario {
	name := names[idx%len(names)]
	sc, _, ok, _ := parseScript(name, texts[name])
	if !ok {
		return nil
	}
	sc.Run = idx
	return sc
}
