//go:build kq

package main

import (
	"fmt"
	"os"
	"path/filepath"
	"reflect"
	"sort"
	"strings"

	"github.com/fsnotify/fsnotify"
	"golang.org/x/sys/unix"
	"verifsim/sinot"
	"verifsim/skq"
	"verifsim/ssim"
)

// kqState is the kqueue flavour's part of Exec.
type kqState struct {
	kern  *skq.Kern
	snaps []KqSnap
}

// KqSnap is the descriptor/table state at a quiescence point.
type KqSnap struct {
	Step            int
	Label           string
	Kq, Pipe, Vnode int
	VnodePaths      []string
	MapSizes        []int
	MapKeys         []string            // string keys of every map reachable from the backend
	KeyTabs         map[string][]string // key -> names of the struct fields (tables) that hold it
}

func (x *Exec) nInst() int                { return 0 }
func (x *Exec) lastInst() *sinot.Instance { return nil }
func (x *Exec) stopFaults()               { x.kq.kern.Cfg.FaultOpen = 0 }

func initOps() {}

func verifAdd(w *fsnotify.Watcher, path string, ops uint32, nofollow bool) error { return w.Add(path) }
func verifSetRecurse(b bool)                                                     {}
func verifBackend(w *fsnotify.Watcher) interface{}                               { return fsnotify.VerifBackend(w) }

func linoOf(p string) (uint64, bool) {
	var st unix.Stat_t
	if unix.Lstat(p, &st) != nil {
		return 0, false
	}
	return st.Ino, st.Mode&unix.S_IFMT == unix.S_IFDIR
}

func inoOf(p string) uint64 {
	var st unix.Stat_t
	if unix.Stat(p, &st) != nil {
		return 0
	}
	return st.Ino
}

// world performs one filesystem operation on the real scratch tree and posts,
// in the same step, the NOTE_* flags FreeBSD's vop_*_post hooks raise.
func (x *Exec) world(task string, op Op) {
	ssim.Yield("world")
	k := x.kq.kern
	var err error
	pre := false
	_, isDirOp := linoOf(op.P)
	switch op.K {
	case OpCreate, OpWrite, "opencreate":
		i, _ := linoOf(op.P)
		pre = i != 0
	case OpRename:
		i, _ := linoOf(op.P2)
		pre = i != 0
	}
	if strings.HasPrefix(op.P2, "\x01") {
		op.P2 = x.root + "/" + op.P2[1:]
	}
	dir := func(p string) uint64 { return inoOf(filepath.Dir(p)) }
	switch op.K {
	case "opencreate":
		var fd int
		fd, err = unix.Open(op.P, unix.O_RDWR|unix.O_APPEND|unix.O_CREAT, 0o666)
		if err == nil {
			unix.Close(fd)
			if !pre {
				k.Post(dir(op.P), skq.NOTE_WRITE)
			}
		}
	case OpCreate:
		vi, _ := linoOf(op.P)
		var fd int
		fd, err = unix.Open(op.P, unix.O_CREAT|unix.O_WRONLY|unix.O_TRUNC, 0o644)
		if err == nil {
			unix.Close(fd)
			if vi == 0 {
				k.Post(dir(op.P), skq.NOTE_WRITE)
			} else {
				k.Post(inoOf(op.P), skq.NOTE_ATTRIB) // O_TRUNC on an existing file is a setattr
			}
		}
	case OpWrite:
		var fd int
		vi, _ := linoOf(op.P)
		fd, err = unix.Open(op.P, unix.O_WRONLY|unix.O_APPEND|unix.O_CREAT, 0o644)
		if err == nil {
			if vi == 0 {
				k.Post(dir(op.P), skq.NOTE_WRITE)
			}
			n := op.N
			if n <= 0 {
				n = 1
			}
			_, err = unix.Write(fd, make([]byte, n))
			unix.Close(fd)
			k.Post(inoOf(op.P), skq.NOTE_WRITE|skq.NOTE_EXTEND)
		}
	case OpTruncate:
		err = unix.Truncate(op.P, int64(op.N))
		if err == nil {
			k.Post(inoOf(op.P), skq.NOTE_ATTRIB)
		}
	case OpChmod:
		m := op.N
		if m == 0 {
			m = 0o600
		}
		m &= 0o7777 // (bit 0o100000 marks an explicit mode, e.g. chmod 0)
		err = unix.Chmod(op.P, uint32(m))
		if err == nil {
			k.Post(inoOf(op.P), skq.NOTE_ATTRIB)
		}
	case OpUnlink:
		vi, isdir := linoOf(op.P)
		d := dir(op.P)
		if isdir {
			err = unix.Rmdir(op.P)
			if err == nil {
				k.Post(d, skq.NOTE_WRITE|skq.NOTE_LINK)
				k.Post(vi, skq.NOTE_DELETE)
			}
		} else {
			err = unix.Unlink(op.P)
			if err == nil {
				k.Post(d, skq.NOTE_WRITE)
				k.Post(vi, skq.NOTE_DELETE)
			}
		}
	case OpMkdir:
		err = unix.Mkdir(op.P, 0o755)
		if err == nil {
			k.Post(dir(op.P), skq.NOTE_WRITE|skq.NOTE_LINK)
		}
	case OpRmdir:
		vi, _ := linoOf(op.P)
		d := dir(op.P)
		err = unix.Rmdir(op.P)
		if err == nil {
			k.Post(d, skq.NOTE_WRITE|skq.NOTE_LINK)
			k.Post(vi, skq.NOTE_DELETE)
		}
	case OpRename:
		fvi, isdir := linoOf(op.P)
		tvi, _ := linoOf(op.P2)
		fd, td := dir(op.P), dir(op.P2)
		err = unix.Rename(op.P, op.P2)
		if err == nil {
			h := uint32(skq.NOTE_WRITE)
			if isdir && fd != td {
				h |= skq.NOTE_LINK
			}
			k.Post(fd, h)
			if td != fd {
				k.Post(td, h)
			}
			k.Post(fvi, skq.NOTE_RENAME)
			if tvi != 0 && tvi != fvi {
				k.Post(tvi, skq.NOTE_DELETE)
			}
		}
	case OpLink:
		err = unix.Link(op.P, op.P2)
		if err == nil {
			k.Post(inoOf(op.P2), skq.NOTE_LINK)
			k.Post(dir(op.P2), skq.NOTE_WRITE)
		}
	case OpSymlink:
		err = unix.Symlink(op.P2, op.P)
		if err == nil {
			k.Post(dir(op.P), skq.NOTE_WRITE)
		}
	case OpMkfifo:
		err = unix.Mkfifo(op.P, 0o644)
		if err == nil {
			k.Post(dir(op.P), skq.NOTE_WRITE)
		}
	case OpOpen, OpOpenRO:
		var fd int
		fl := unix.O_RDWR
		if op.K == OpOpenRO {
			fl = unix.O_RDONLY
		}
		fd, err = unix.Open(op.P, fl, 0)
		if err == nil {
			if old, ok := x.fds[op.N]; ok {
				unix.Close(old)
			}
			x.fds[op.N] = fd
		}
	case OpWriteFD:
		if fd, ok := x.fds[op.N]; ok {
			_, err = unix.Write(fd, []byte("x"))
			var st unix.Stat_t
			if unix.Fstat(fd, &st) == nil {
				k.Post(st.Ino, skq.NOTE_WRITE|skq.NOTE_EXTEND)
			}
		}
	case OpCloseFD:
		if fd, ok := x.fds[op.N]; ok {
			err = unix.Close(fd)
			delete(x.fds, op.N)
		}
	case OpRmRF:
		x.rmrf(op.P, op.N == 1)
	case OpYield:
	}
	wr := WorldRec{Step: step(), Task: task, Op: op, PreExisted: pre, IsDir: isDirOp}
	if err != nil {
		wr.Err = classify(err)
	}
	x.WorldLog = append(x.WorldLog, wr)
}

// rmrf removes a tree bottom-up; burst = all syscalls in one step (os.RemoveAll
// does not pause), otherwise one syscall per step.
func (x *Exec) rmrf(p string, burst bool) {
	k := x.kq.kern
	ents, err := os.ReadDir(p)
	if err == nil {
		for _, e := range ents {
			c := p + "/" + e.Name()
			if e.IsDir() {
				x.rmrf(c, burst)
			} else {
				vi, _ := linoOf(c)
				d := inoOf(p)
				if unix.Unlink(c) == nil {
					k.Post(d, skq.NOTE_WRITE)
					k.Post(vi, skq.NOTE_DELETE)
				}
				if !burst {
					ssim.Yield("world")
				}
			}
		}
		vi, _ := linoOf(p)
		d := inoOf(filepath.Dir(p))
		if unix.Rmdir(p) == nil {
			k.Post(d, skq.NOTE_WRITE|skq.NOTE_LINK)
			k.Post(vi, skq.NOTE_DELETE)
		}
	} else {
		vi, _ := linoOf(p)
		d := inoOf(filepath.Dir(p))
		if unix.Unlink(p) == nil {
			k.Post(d, skq.NOTE_WRITE)
			k.Post(vi, skq.NOTE_DELETE)
		}
	}
	if !burst {
		ssim.Yield("world")
	}
}

func (x *Exec) snapshot(label string) {
	k := x.kq.kern
	s := KqSnap{Step: step(), Label: label}
	s.Kq, s.Pipe, s.Vnode = k.OpenFDs()
	s.VnodePaths = k.VnodePaths()
	for _, wr := range x.W {
		if wr.W != nil {
			s.MapSizes = append(s.MapSizes, mapSizes(verifBackend(wr.W))...)
			keys, tabs := mapStringKeys(verifBackend(wr.W))
			s.MapKeys = append(s.MapKeys, keys...)
			if s.KeyTabs == nil {
				s.KeyTabs = map[string][]string{}
			}
			for i, k := range keys {
				s.KeyTabs[k] = append(s.KeyTabs[k], tabs[i])
			}
		}
	}
	x.kq.snaps = append(x.kq.snaps, s)
}

// mapStringKeys returns the string keys of every map reachable from v.
func mapStringKeys(v interface{}) (keys, tabs []string) {
	type kt struct{ k, t string }
	var out []kt
	seen := map[uintptr]bool{}
	var walk func(rv reflect.Value, depth int, field string)
	walk = func(rv reflect.Value, depth int, field string) {
		if depth > 6 {
			return
		}
		switch rv.Kind() {
		case reflect.Ptr:
			if rv.IsNil() || seen[rv.Pointer()] {
				return
			}
			seen[rv.Pointer()] = true
			walk(rv.Elem(), depth+1, field)
		case reflect.Interface:
			if !rv.IsNil() {
				walk(rv.Elem(), depth+1, field)
			}
		case reflect.Struct:
			if strings.HasPrefix(rv.Type().PkgPath(), "verifsim/") {
				return
			}
			for i := 0; i < rv.NumField(); i++ {
				walk(rv.Field(i), depth+1, rv.Type().Field(i).Name)
			}
		case reflect.Map:
			if rv.Type().Key().Kind() == reflect.String {
				for _, k := range rv.MapKeys() {
					out = append(out, kt{k.String(), field})
				}
			}
		}
	}
	walk(reflect.ValueOf(v), 0, "")
	sort.Slice(out, func(i, j int) bool { return out[i].k < out[j].k || out[i].k == out[j].k && out[i].t < out[j].t })
	for _, e := range out {
		keys = append(keys, e.k)
		tabs = append(tabs, e.t)
	}
	return keys, tabs
}

// execute runs the scenario under the given chooser.
func execute(sc *Scenario, ch ssim.Chooser, keepTrace bool) *Exec {
	x := &Exec{sc: sc, fds: map[int]int{}}
	base := os.Getenv("VERIF_SCRATCH")
	if base == "" {
		base = "/dev/shm"
	}
	root, err := os.MkdirTemp(base, "vsim-")
	if err != nil {
		ssim.Fatal("mkdtemp: %v", err)
	}
	root, _ = filepath.EvalSymlinks(root)
	x.root = root
	if err := os.Chdir(root); err != nil {
		ssim.Fatal("chdir: %v", err)
	}
	defer func() {
		os.Chdir("/")
		os.RemoveAll(root)
	}()
	x.kq.kern = skq.New(skq.Config{BatchMode: sc.Cfg.BatchMode, Permute: sc.Cfg.Coalesce, FaultOpen: sc.Cfg.FaultAdd, EmulatePerm: true})
	max := sc.Cfg.MaxSteps
	if max <= 0 {
		max = 20000
	}
	pol := ssim.Policy{Kind: sc.Cfg.Policy, SwitchProb: sc.Cfg.SwitchProb, Weights: sc.Cfg.Weights, PCTDepth: sc.Cfg.PCTDepth}
	x.S = ssim.New(ch, max, pol)
	x.S.KeepTrace = keepTrace
	x.S.Run(x.mainTask)
	for _, fd := range x.fds {
		unix.Close(fd)
	}
	x.kq.kern.ReleaseAll()
	return x
}

func dumpRun(x *Exec, res *RunResult) {
	for _, l := range x.S.Trace {
		fmt.Println("TRACE", l)
	}
	for _, c := range x.kq.kern.Calls {
		fmt.Printf("SYSCALL %+v\n", c)
	}
	for _, wr := range x.W {
		for _, d := range wr.D {
			fmt.Printf("EVENT w%d @%d %s\n", wr.Idx, d.Step, strings.ReplaceAll(d.Str, x.root, "$ROOT"))
		}
		for _, e := range wr.E {
			fmt.Printf("ERROR w%d @%d %s\n", wr.Idx, e.Step, e.Err)
		}
	}
	for _, c := range x.H {
		fmt.Printf("CALL #%d %s %s(%q) w%d [%d,%d] err=%q list=%q panic=%q\n", c.Idx, c.Task, c.Kind, c.Path, c.W, c.Inv, c.Ret, c.Err, c.List, c.Panic)
	}
	for _, w := range x.WorldLog {
		fmt.Printf("WORLD @%d %s %+v err=%s\n", w.Step, w.Task, w.Op, w.Err)
	}
	for _, s := range x.kq.snaps {
		fmt.Printf("SNAP %+v\n", s)
	}
	for _, l := range res.Deadlock {
		fmt.Println("PARKED", l)
	}
}
